#!/bin/bash
# seedtest.sh <seed-dir> <property>...   apply a seeded change to a scratch copy of /repo's working tree (never to /repo),
# run the named quick checks against that copy (PVC_REPO_SRC), remove the copy.
# prints one line per property: exit status and the first VIOLATION / UNDECIDED / ENGINE-ERROR lines
dir=$(realpath $1); shift
cd /verif
scratch=$(mktemp -d /tmp/seedrepo.XXXXXX)
trap 'rm -rf "$scratch"' EXIT
rsync -a --exclude .git /repo/src "$scratch"/
PYTHONPATH=$scratch/src /venv/bin/python $dir/demo.py >/dev/null 2>&1; before=$?
(cd "$scratch" && git apply $dir/patch.diff) || { echo "patch does not apply"; exit 9; }
PYTHONPATH=$scratch/src /venv/bin/python $dir/demo.py >/dev/null 2>&1; after=$?
echo "demo: exit $before without the change, exit $after with it"
for p in "$@"; do
  s=$(date +%s)
  out=$(PVC_REPO_SRC=$scratch/src PVC_EVIDENCE_DIR=$scratch/evidence PVC_REPLAY_DIR=$scratch/replays timeout 1500 ./vcheck $p quick 2>&1); rc=$?
  echo "$p exit=$rc $(( $(date +%s) - s ))s :: $(echo "$out" | grep -E '^(VIOLATION|UNDECIDED|ENGINE-ERROR)' | head -4 | cut -c1-260 | tr '\n' '|')"
  echo "$out" > /tmp/seedtest_last_$p.log
done
