#!/bin/bash
# seedtest.sh <seed-dir> <property>...   apply a seeded change to /repo, run the named checks, undo it.
# prints one line per property: exit status and the first VIOLATION / UNDECIDED / ENGINE-ERROR lines
dir=$1; shift
cd /verif
git -C /repo diff --quiet || { echo "/repo is dirty, refusing"; exit 9; }
PYTHONPATH=/repo/src /venv/bin/python $dir/demo.py >/dev/null 2>&1; before=$?
git -C /repo apply $(realpath $dir/patch.diff) || { echo "patch does not apply"; exit 9; }
PYTHONPATH=/repo/src /venv/bin/python $dir/demo.py >/dev/null 2>&1; after=$?
echo "demo: exit $before without the change, exit $after with it"
for p in "$@"; do
  s=$(date +%s)
  out=$(PVC_EVIDENCE_DIR=/tmp/seed_evidence timeout 1500 ./vcheck $p quick 2>&1); rc=$?
  echo "$p exit=$rc $(( $(date +%s) - s ))s :: $(echo "$out" | grep -E '^(VIOLATION|UNDECIDED|ENGINE-ERROR)' | head -4 | cut -c1-260 | tr '\n' '|')"
done
git -C /repo checkout -- .
git -C /repo diff --quiet && echo "repo restored"
