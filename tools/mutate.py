#!/usr/bin/env python3
"""
Mutation sweep (development tool, not a registered check): does every small semantic change of the code under
contract that the repository's own test suite lets through fail one of our checks?

    tools/mutate.py list  <module.py> [<function-regex>]          enumerate mutants
    tools/mutate.py run   <module.py> <checks,comma> [<function-regex>] [--jobs N] [--max M] [--out FILE]

For each mutant (one token-level edit: comparison operator, boolean operator, arithmetic operator, integer constant +-1,
`not` removed, 0<->1 ...) a scratch copy of /repo/src is patched (bytes, CRLF preserved), the repository's test suite
is run against it (testNMEA deselected: it fails on the pinned commit), and - only if the suite still passes - the named
quick checks are run against the scratch copy (PVC_REPO_SRC).  Result lines: killed-by-tests / detected (exit 1) /
undecided (exit 2) / engine (exit 3) / SURVIVED (exit 0).  Survivors are equivalent mutants or gaps; they are triaged by
hand (DESIGN.md 0A.6).  /repo is never modified.
"""
from __future__ import annotations

import ast
import json
import os
import re
import shutil
import subprocess
import sys
import tempfile
import time
from concurrent.futures import ThreadPoolExecutor

REPO = "/repo"
VERIF = os.path.dirname(os.path.dirname(os.path.abspath(__file__)))

CMP = {ast.Eq: "!=", ast.NotEq: "==", ast.Lt: "<=", ast.LtE: "<", ast.Gt: ">=", ast.GtE: ">", ast.In: "not in",
       ast.NotIn: "in", ast.Is: "is not", ast.IsNot: "is"}
CMP_TXT = {ast.Eq: "==", ast.NotEq: "!=", ast.Lt: "<", ast.LtE: "<=", ast.Gt: ">", ast.GtE: ">=", ast.In: "in",
           ast.NotIn: "not in", ast.Is: "is", ast.IsNot: "is not"}
BIN = {ast.Add: ("+", "-"), ast.Sub: ("-", "+"), ast.Mult: ("*", "+"), ast.LShift: ("<<", ">>"), ast.RShift: (">>", "<<"),
       ast.BitAnd: ("&", "|"), ast.BitOr: ("|", "&"), ast.FloorDiv: ("//", "*"), ast.Mod: ("%", "//")}


def line_offsets(src: bytes):
    offs = [0]
    for i, b in enumerate(src):
        if b == 0x0A:
            offs.append(i + 1)
    return offs


def enumerate_mutants(path, fn_re=None):
    with open(path, "rb") as f:
        src = f.read()
    text = src.decode("utf-8")
    tree = ast.parse(src)
    offs = line_offsets(src)
    lines = src.split(b"\n")

    def pos(lineno, col):  # col is a utf-8 byte offset in ast
        return offs[lineno - 1] + col

    muts = []

    def add(start, end, new, desc, fn):
        old = src[start:end].decode()
        if old == new:
            return
        muts.append({"file": path, "start": start, "end": end, "old": old, "new": new, "desc": desc, "function": fn,
                     "line": src[:start].count(b"\n") + 1})

    def between(a_end, b_start, token):
        """byte range of operator `token` between two sub-expressions"""
        seg = src[a_end:b_start].decode()
        m = re.search(r"(?<![=!<>])" + re.escape(token) + r"(?![=])" if token in ("<", ">", "=") else re.escape(token), seg)
        if not m:
            return None
        return a_end + len(seg[:m.start()].encode()), a_end + len(seg[:m.end()].encode())

    def visit_fn(fn, qual):
        for node in ast.walk(fn):
            if isinstance(node, ast.Compare):
                left = node.left
                for op, right in zip(node.ops, node.comparators):
                    tok = CMP_TXT.get(type(op))
                    if tok:
                        a_end = pos(left.end_lineno, left.end_col_offset)
                        b_start = pos(right.lineno, right.col_offset)
                        r = between(a_end, b_start, tok)
                        if r:
                            add(r[0], r[1], CMP[type(op)], f"compare {tok} -> {CMP[type(op)]}", qual)
                            if isinstance(op, (ast.Lt, ast.Gt, ast.LtE, ast.GtE)):
                                flip = {"<": ">", ">": "<", "<=": ">=", ">=": "<="}[tok]
                                add(r[0], r[1], flip, f"compare {tok} -> {flip}", qual)
                    left = right
            elif isinstance(node, ast.BoolOp):
                tok, new = ("and", "or") if isinstance(node.op, ast.And) else ("or", "and")
                for a, b in zip(node.values, node.values[1:]):
                    r = between(pos(a.end_lineno, a.end_col_offset), pos(b.lineno, b.col_offset), tok)
                    if r:
                        add(r[0], r[1], new, f"{tok} -> {new}", qual)
            elif isinstance(node, ast.BinOp) and type(node.op) in BIN:
                tok, new = BIN[type(node.op)]
                if isinstance(node.left, ast.Constant) and isinstance(node.left.value, str):
                    continue
                r = between(pos(node.left.end_lineno, node.left.end_col_offset), pos(node.right.lineno, node.right.col_offset), tok)
                if r:
                    add(r[0], r[1], new, f"binop {tok} -> {new}", qual)
            elif isinstance(node, ast.UnaryOp) and isinstance(node.op, ast.Not):
                s0 = pos(node.lineno, node.col_offset)
                s1 = pos(node.operand.lineno, node.operand.col_offset)
                add(s0, s1, "", "remove not", qual)
            elif isinstance(node, ast.Constant) and isinstance(node.value, int) and not isinstance(node.value, bool):
                if 0 <= node.value <= 4096:
                    s0, s1 = pos(node.lineno, node.col_offset), pos(node.end_lineno, node.end_col_offset)
                    lit = src[s0:s1].decode()
                    if re.fullmatch(r"\d+", lit):
                        add(s0, s1, str(node.value + 1), f"const {lit} -> {node.value + 1}", qual)
                        if node.value > 0:
                            add(s0, s1, str(node.value - 1), f"const {lit} -> {node.value - 1}", qual)
                    elif re.fullmatch(r"0[xX][0-9a-fA-F]+", lit):
                        add(s0, s1, hex(node.value + 1), f"const {lit} -> {hex(node.value + 1)}", qual)
                        if node.value > 0:
                            add(s0, s1, hex(node.value - 1), f"const {lit} -> {hex(node.value - 1)}", qual)
            elif isinstance(node, ast.Constant) and isinstance(node.value, bool):
                s0, s1 = pos(node.lineno, node.col_offset), pos(node.end_lineno, node.end_col_offset)
                add(s0, s1, str(not node.value), f"const {node.value} -> {not node.value}", qual)
            elif isinstance(node, ast.Constant) and isinstance(node.value, bytes) and 1 <= len(node.value) <= 2:
                s0, s1 = pos(node.lineno, node.col_offset), pos(node.end_lineno, node.end_col_offset)
                v = bytes([(node.value[0] + 1) % 256]) + node.value[1:]
                add(s0, s1, repr(v), f"bytes const {node.value!r} -> {v!r}", qual)
            elif isinstance(node, ast.AugAssign) and type(node.op) in BIN:
                tok, new = BIN[type(node.op)]
                r = between(pos(node.target.end_lineno, node.target.end_col_offset), pos(node.value.lineno, node.value.col_offset), tok + "=")
                if r:
                    add(r[0], r[1], new + "=", f"augassign {tok}= -> {new}=", qual)
            elif isinstance(node, ast.Return) and node.value is not None and isinstance(node.value, (ast.Name, ast.Attribute)):
                pass
            elif isinstance(node, ast.If) and not node.orelse and len(node.body) == 1 and isinstance(node.body[0], ast.Raise):
                # drop a guard: `if C: raise ...`  ->  `if False: raise ...`
                s0, s1 = pos(node.test.lineno, node.test.col_offset), pos(node.test.end_lineno, node.test.end_col_offset)
                add(s0, s1, "False", "guard of a raise -> False", qual)

    def walk(node, prefix):
        for child in ast.iter_child_nodes(node):
            if isinstance(child, (ast.FunctionDef, ast.AsyncFunctionDef)):
                q = f"{prefix}.{child.name}" if prefix else child.name
                if fn_re is None or re.search(fn_re, q):
                    visit_fn(child, q)
            elif isinstance(child, ast.ClassDef):
                walk(child, f"{prefix}.{child.name}" if prefix else child.name)

    walk(tree, "")
    # docstrings: drop mutants inside string constants (ast gives none) ; dedupe
    seen, out = set(), []
    for m in muts:
        k = (m["start"], m["end"], m["new"])
        if k not in seen:
            seen.add(k)
            out.append(m)
    for i, m in enumerate(out):
        m["id"] = i
    return out


def run_mutant(m, relpath, checks, jobs_per_check):
    scratch = tempfile.mkdtemp(prefix="mut.", dir="/tmp")
    try:
        shutil.copytree(os.path.join(REPO, "src"), os.path.join(scratch, "src"))
        p = os.path.join(scratch, "src", relpath)
        with open(p, "rb") as f:
            b = f.read()
        b2 = b[:m["start"]] + m["new"].encode() + b[m["end"]:]
        with open(p, "wb") as f:
            f.write(b2)
        try:
            ast.parse(b2)
        except SyntaxError:
            return dict(m, verdict="syntax-error")
        env = dict(os.environ, PYTHONPATH=os.path.join(scratch, "src"))
        t = subprocess.run(["/venv/bin/python", "-m", "pytest", "-q", "-p", "no:cacheprovider", "--no-cov", "-x", "-q", "tests",
                            "--deselect", "tests/test_stream.py::StreamTest::testNMEA", "--timeout=120"],
                           cwd=REPO, env=env, capture_output=True, text=True, timeout=900)
        if t.returncode != 0:
            return dict(m, verdict="killed-by-tests")
        res = {}
        verdict = "SURVIVED"
        for c in checks:
            env2 = dict(os.environ, PVC_REPO_SRC=os.path.join(scratch, "src"), PVC_EVIDENCE_DIR=os.path.join(scratch, "ev"),
                        PVC_REPLAY_DIR=os.path.join(scratch, "replays"), PVC_JOBS=str(jobs_per_check), PVC_NO_CACHE="1")
            t0 = time.time()
            try:
                r = subprocess.run([os.path.join(VERIF, "vcheck"), c, "quick"], cwd=VERIF, env=env2, capture_output=True,
                                   text=True, timeout=3000)
                rc = r.returncode
                first = next((ln for ln in r.stdout.splitlines() if ln.startswith(("VIOLATION", "UNDECIDED", "ENGINE-ERROR"))), "")
            except subprocess.TimeoutExpired:
                rc, first = 124, "timeout"
            res[c] = {"exit": rc, "s": round(time.time() - t0), "first": first[:200]}
            if rc == 1:
                verdict = "detected"
                break
        if verdict != "detected":
            codes = {v["exit"] for v in res.values()}
            verdict = "SURVIVED" if codes <= {0} else ("undecided" if codes <= {0, 2} else "engine")
        return dict(m, verdict=verdict, checks=res)
    finally:
        shutil.rmtree(scratch, ignore_errors=True)


def main():
    cmd = sys.argv[1]
    rel = sys.argv[2]
    path = os.path.join(REPO, "src", "pyubx2", rel)
    if cmd == "list":
        fn_re = sys.argv[3] if len(sys.argv) > 3 else None
        for m in enumerate_mutants(path, fn_re):
            print(m["id"], m["function"], m["line"], m["desc"], repr(m["old"]), "->", repr(m["new"]))
        return
    checks = sys.argv[3].split(",")
    args = sys.argv[4:]
    fn_re = None
    jobs, mx, out, every = 4, None, "/tmp/mut_results.jsonl", 1
    i = 0
    while i < len(args):
        if args[i] == "--jobs":
            jobs = int(args[i + 1]); i += 2
        elif args[i] == "--max":
            mx = int(args[i + 1]); i += 2
        elif args[i] == "--out":
            out = args[i + 1]; i += 2
        elif args[i] == "--every":
            every = int(args[i + 1]); i += 2
        else:
            fn_re = args[i]; i += 1
    muts = enumerate_mutants(path, fn_re)[::every]
    if mx:
        muts = muts[:mx]
    print(f"{len(muts)} mutants of {rel}", flush=True)
    per = max(1, 16 // jobs)
    with ThreadPoolExecutor(jobs) as ex, open(out, "a") as fo:
        for r in ex.map(lambda m: run_mutant(m, os.path.join("pyubx2", rel), checks, per), muts):
            r.pop("file", None)
            fo.write(json.dumps(r) + "\n")
            fo.flush()
            print(r["verdict"], r["function"], r["line"], r["desc"], {k: v["exit"] for k, v in r.get("checks", {}).items()}, flush=True)


if __name__ == "__main__":
    main()
