#!/bin/bash
# benigntest.sh <dir-with-patch.diff> <property>...   apply a behaviour-preserving refactoring to a scratch copy of
# /repo's working tree and run the named quick checks against it: every check is expected to exit 0 (an exit 1 would be
# a false alarm; exit 2 = the contracts no longer fit the code's shape, to be judged case by case)
dir=$(realpath $1); shift
cd /verif
scratch=$(mktemp -d /tmp/benignrepo.XXXXXX)
trap 'rm -rf "$scratch"' EXIT
rsync -a --exclude .git /repo/src "$scratch"/
(cd "$scratch" && git apply $dir/patch.diff) || { echo "patch does not apply"; exit 9; }
for p in "$@"; do
  s=$(date +%s)
  out=$(PVC_REPO_SRC=$scratch/src PVC_EVIDENCE_DIR=$scratch/evidence PVC_REPLAY_DIR=$scratch/replays timeout 1500 ./vcheck $p quick 2>&1); rc=$?
  echo "$(basename $dir) $p exit=$rc $(( $(date +%s) - s ))s :: $(echo "$out" | grep -E '^(VIOLATION|UNDECIDED|ENGINE-ERROR)' | head -3 | cut -c1-220 | tr '\n' '|')"
  echo "$out" > /tmp/benign_last_$p.log
done
