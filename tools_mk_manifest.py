import json,sys
sys.path.insert(0,'/verif')
claimed = json.load(open('/verif/claims.json'))
props=[json.loads(l) for l in open('/verif/properties.jsonl')]
checks=[]; na=[]
for p in props:
    pid=p['id']
    if pid in claimed:
        c=claimed[pid]
        checks.append({
          "property_id": pid,
          "quick_cmd": f"./vcheck {pid} quick",
          "thorough_cmd": f"./vcheck {pid} thorough",
          "evidence_file": f"evidence/{pid}.json",
          "replay_cmd_template": ".venv/bin/python -m pvc.replay {path}",
          "engine": "pvc",
          "level_claimed": {"category": c.get("category","proof"), "text": c["text"], "design_ref": c.get("design_ref","DESIGN.md section 5")},
          "level_note": c["note"],
          "technique": c["technique"],
        })
    else:
        na.append({"property_id": pid, "reason": "not yet built in this revision (see DESIGN.md section 8 build order); no check is registered, nothing is claimed"})
m={
 "version":1,
 "setup_cmd":"./setup.sh",
 "hooks":{"guard":"PYUBX2_VERIF","enable":"none needed: contracts live in the sidecar /verif/contracts, keyed by qualified name and loop ordinal; /repo carries no instrumentation","baseline_off_cmd":"cd /repo && /venv/bin/python -m pytest -ra -q -p no:cacheprovider --timeout=900 --continue-on-collection-errors","source_commits":[],"add_only":True},
 "engines":[{"name":"pvc","path":"pvc/","serves_properties":sorted(claimed),"kind_free_text":"contract-based deductive verifier: symbolic execution of the real function ASTs from /repo's working tree against sidecar contracts, VCs discharged by z3 (cvc5 second back end)"}],
 "checks":checks,
 "not_applicable":na,
 "notes":"Exit codes of every check: 0 held, 1 violation (VIOLATION line + replay file), 2 undecided, 3 engine problem. Bounded stand-ins are listed per check under coverage.bounded and never counted as discharged."
}
json.dump(m,open('/verif/MANIFEST.json','w'),indent=1)
import jsonschema
jsonschema.validate(m,json.load(open('/root/.vp/MANIFEST.schema.json')))
print('manifest ok',len(checks),'checks')
