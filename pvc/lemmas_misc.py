"""
Lemmas over contracts and table-derived arithmetic (C17, C03 helpers, C04 addressing forms).
"""
from __future__ import annotations

import z3

from . import extract
from .state import Obligation
from .values import zint


def _tabs():
    core = extract.load_module("pyubx2.ubxtypes_core")[0]
    set_ = extract.load_module("pyubx2.ubxtypes_set")[0].UBX_PAYLOADS_SET
    poll = extract.load_module("pyubx2.ubxtypes_poll")[0].UBX_PAYLOADS_POLL
    get = extract.load_module("pyubx2.ubxtypes_get")[0].UBX_PAYLOADS_GET
    return core, {"GET": get, "SET": set_, "POLL": poll}


def _lengths(defn):
    """conforming payload length of a definition as (z3 term, constraints): static part + sum count_g * G_g, every
    count ranging over what its size attribute (or the variable-by-size rule) can express"""
    from contracts.oracle import parse_def, static_size, Leaf, Bitfield, Group
    ents = parse_def(defn)
    total = z3.IntVal(0)
    cons = []
    widths = {}
    k = 0
    for e in ents:
        if isinstance(e, Leaf):
            if e.typ == "CH":
                n = z3.Int(f"ch{k}")
                k += 1
                cons.append(n >= 0)
                total = total + n
            else:
                total = total + e.size
                if e.typ[0] in "EILU" and e.scale is None:
                    widths[e.name] = 8 * e.size
        elif isinstance(e, Bitfield):
            total = total + e.size
            for fn, w in e.flags:
                widths[fn] = w
        else:
            G = static_size(e.entries) or 0
            if isinstance(e.count, int):
                total = total + e.count * G
            else:
                n = z3.Int(f"n{k}")
                k += 1
                cons.append(n >= 0)
                if e.count != "None" and e.count in widths:
                    cons.append(n < (1 << widths[e.count]) + 1)
                total = total + n * G
    return total, cons


def setpoll_unit(ctx, res, col, reg):
    """C17: for every SET / POLL definition and every conforming payload length, the documented SET/POLL heuristic
    (getinputmode_spec, which getinputmode is proved to implement) classifies the serialized frame as its true mode"""
    core, tabs = _tabs()
    names2key = {}
    for kk, v in core.UBX_MSGIDS.items():
        names2key.setdefault(v, kk)
    vsrc = extract.module_source("pyubx2.ubxvariants")
    for mode, want in (("SET", 1), ("POLL", 2)):
        for name, defn in tabs[mode].items():
            key = names2key.get(name)
            if key is None:
                # variant definitions: class/ID of the message they are a variant of (same name stem)
                stem = [k2 for nm, k2 in names2key.items() if name.startswith(nm)]
                if not stem:
                    continue
                key = sorted(stem, key=len)[-1]
            L, cons = _lengths(defn)
            n = 8 + L
            clsid = key[0:2]
            four = clsid in (b"\x06\x01", b"\x06\x02", b"\x06\x03", b"\x06\x31")
            poll = z3.Or(n == 8, z3.BoolVal(clsid == b"\x06\x8b"), z3.And(z3.BoolVal(four), n <= 10))
            goal = z3.Not(poll) if want == 1 else poll
            s = z3.Solver()
            s.set("timeout", 10000)
            for c in cons:
                s.add(c)
            s.add(L <= 65535)
            s.add(z3.Not(goal))
            r = s.check()
            ob = Obligation(f"lemma.C17/{mode}:{name}", "lemma")
            ob.status = "unsat" if r == z3.unsat else ("sat" if r == z3.sat else "unknown")
            ob.detail = f"every conforming {mode} {name} frame is classified {mode} by the SETPOLL heuristic"
            if r == z3.sat:
                m = s.model()
                ob.inputs = {"definition": name, "mode": mode, "payload_len": m.eval(L, model_completion=True).as_long(),
                             "class_id": clsid.hex()}
            col.obligations.append(ob)


def replay_setpoll(o):
    """native replay: build a conforming frame of the recorded length and parse it with SETPOLL"""
    from pyubx2 import UBXMessage, UBXReader
    info = {"reproduced": False}
    inp = o.inputs or {}
    try:
        mode = 1 if inp["mode"] == "SET" else 2
        k = bytes.fromhex(inp["class_id"])
        pl = bytes(inp["payload_len"])
        m = UBXMessage(k[0:1], k[1:2], mode, payload=pl) if pl else UBXMessage(k[0:1], k[1:2], mode)
        p = UBXReader.parse(m.serialize(), msgmode=3)
        info["observed"] = f"SETPOLL parse gives msgmode {p.msgmode}, generated as {mode}"
        info["reproduced"] = p.msgmode != mode
        info["frame"] = m.serialize().hex()
    except Exception as e:  # noqa
        info["observed"] = f"{type(e).__name__}: {e}"
        info["reproduced"] = True
    return info


def addressing_forms(ctx):
    """C04 (ground, exhaustive over the tables): the name form of every message ID maps back to its class/ID bytes"""
    core, _ = _tabs()
    from pyubx2.ubxhelpers import msgstr2bytes
    seen = set()
    for key, name in core.UBX_MSGIDS.items():
        cname = core.UBX_CLASSES.get(key[0:1])
        if cname is None:
            yield (f"addressing[{key.hex()} {name}]:class-known", False, "class byte not in UBX_CLASSES", {"key": key.hex()})
            continue
        try:
            got = msgstr2bytes(cname, name)
            ok = got == (key[0:1], key[1:2])
            detail = "" if ok else f"msgstr2bytes({cname!r}, {name!r}) == {got!r}, expected {(key[0:1], key[1:2])!r}"
        except Exception as e:  # noqa
            ok, detail = False, f"{type(e).__name__}: {e}"
        if (key[0:2], name) in seen:
            continue
        seen.add((key[0:2], name))
        yield (f"addressing[{key[0:2].hex()} {name}]:name-form-equals-bytes-form", ok, detail, {"key": key.hex(), "name": name})


def mixed_radix_unit(ctx, res, col, reg):
    """arithmetic lemma used to compose C03 (bitfield == sum of flags << offsets) with C02 (flag == bits of the
    bitfield): for every distinct flag layout of the tables, (sum_g v_g 2^o_g  div 2^o_f) mod 2^w_f == v_f when
    0 <= v_g < 2^w_g.  Proved per flag in offset order, each under the earlier ones (chain)."""
    from contracts.oracle import parse_def, Bitfield, Group
    core, tabs = _tabs()
    layouts = set()

    def walk(ents):
        for e in ents:
            if isinstance(e, Bitfield):
                layouts.add(tuple(w for _, w in e.flags))
            elif isinstance(e, Group):
                walk(e.entries)

    for t in tabs.values():
        for d in t.values():
            walk(parse_def(d))
    generic = {}

    def slot_lemma(off, w):
        """T == LO + 2^off * (V + 2^w * REST), 0 <= LO < 2^off, 0 <= V < 2^w, REST >= 0  |-  (T div 2^off) mod 2^w == V"""
        if (off, w) not in generic:
            T, LO, V, REST = z3.Ints("T LO V REST")
            s = z3.Solver()
            s.set("timeout", 10000)
            s.add(T == LO + (1 << off) * (V + (1 << w) * REST), LO >= 0, LO < (1 << off), V >= 0, V < (1 << w), REST >= 0)
            s.add(z3.Not((T / (1 << off)) % (1 << w) == V))
            from .cvc5backend import check_smt2
            r = check_smt2(s.to_smt2(), 10000)  # cvc5 decides these large-coefficient LIA facts in milliseconds
            generic[(off, w)] = (r == "unsat") or (r != "sat" and s.check() == z3.unsat)
        return generic[(off, w)]

    for lay in sorted(layouts):
        vs = [z3.Int(f"v{i}") for i in range(len(lay))]
        offs = []
        o = 0
        for w in lay:
            offs.append(o)
            o += w
        total = z3.Sum([v * (1 << off) for v, off in zip(vs, offs)]) if vs else z3.IntVal(0)
        base = [z3.And(v >= 0, v < (1 << w)) for v, w in zip(vs, lay)]
        ok = True
        for i, (w, off) in enumerate(zip(lay, offs)):
            lo = z3.Sum([vs[g] * (1 << offs[g]) for g in range(i)]) if i else z3.IntVal(0)
            rest = z3.Sum([vs[g] * (1 << (offs[g] - off - w)) for g in range(i + 1, len(lay))]) if i + 1 < len(lay) else z3.IntVal(0)
            checks = [z3.Not(total == lo + (1 << off) * (vs[i] + (1 << w) * rest)),  # the decomposition (linear identity)
                      z3.Not(z3.And(lo >= 0, lo < (1 << off))),  # the lower flags stay below this slot
                      z3.Not(rest >= 0)]
            for c in checks:
                s = z3.Solver()
                s.set("timeout", 10000)
                for b in base:
                    s.add(b)
                s.add(c)
                if s.check() != z3.unsat:
                    ok = False
            if not slot_lemma(off, w):
                ok = False
            if not ok:
                break
        ob = Obligation(f"lemma.mixed-radix/{'-'.join(map(str, lay))}", "lemma")
        ob.status = "unsat" if ok else "unknown"
        ob.detail = "flag == bits of (sum of flags << offsets), per flag: decomposition + slot lemma"
        col.obligations.append(ob)


def msgstr_chunk_unit(ctx, res, col, reg, lo, hi):
    """msgstr2bytes body against its contract for message-ID table entries lo..hi: the class/ID bytes of the table
    entry (first entry of that name), UBXMessageError for unknown names, and no write to shared state"""
    from .verify import verify_function
    from .contracts import Contract
    core, _ = _tabs()
    entries = list(core.UBX_MSGIDS.items())[lo:hi]
    qn = "pyubx2.ubxhelpers.msgstr2bytes"
    for key, name in entries:
        cname = core.UBX_CLASSES.get(key[0:1])
        if cname is None:
            continue
        first = [k for k, v in core.UBX_MSGIDS.items() if v == name][0]
        c = Contract(qn, params={"msgclass": ("const", cname), "msgid": ("const", name)},
                     ensures=[("table-entry", f"result == ({key[0:1]!r}, {first[1:2]!r})")],
                     raises={}, modifies=[])
        verify_function(reg, c, col, label=f"msgstr2bytes[{cname} {name}]")
    if lo == 0:
        c = Contract(qn, params={"msgclass": ("const", "CFG"), "msgid": ("const", "NO-SUCH-MESSAGE")},
                     ensures=[("never", "False")], raises={"UBXMessageError": None}, modifies=[])
        verify_function(reg, c, col, label="msgstr2bytes[unknown name]")
    res.functions.append(qn)


def msgstr_units(p, select=None):
    from .units import CustomUnit
    core, _ = _tabs()
    n = len(core.UBX_MSGIDS)
    for lo in range(0, n, 40):
        u = CustomUnit(f"msgstr2bytes[{lo}:{min(lo + 40, n)}]", msgstr_chunk_unit, (lo, min(lo + 40, n)), props=(p.prop,), cost=8)
        if select:
            u.select = select
        p.add(u)


def text_codec_unit(ctx, res, col, reg):
    """Text fields (type CH; str values given for C types) are encoded by val2bytes and decoded by bytes2val through
    Python codecs, which the engine treats as opaque.  What the properties need from them is that the two directions
    use the *same* codec and error handler (then decoding the encoded text returns the text, for every string the codec
    can represent).  Both function bodies are executed symbolically for the text types and the (codec, error handler)
    pairs of every encode / decode they perform are compared."""
    from .difftest import summarise  # noqa (same exploration loop, but we need the ghost log)
    from .contracts import Contract
    from .exec import Executor, PyRaise
    from .state import State, PathEnd
    from .values import reset_names, SStr, Opaque, SBytes, Base, Unsupported, ContractOutOfDate
    from .verify import build_args
    H = "pyubx2.ubxhelpers."

    def run(qn, params):
        finfo = extract.get_function(qn)
        c = Contract(qn, params=params, ensures=[], raises={}, modifies=[])
        logs = []
        work = [()]
        n = 0
        while work and n < 200:
            script = work.pop()
            n += 1
            reset_names()
            st = State(script, None)
            ex = Executor(st, reg)
            ex._defaults_module = finfo.module
            try:
                names, env, kw = build_args(ex, c, finfo)
                try:
                    ex.call_funcinfo(finfo, [env[x] for x in names], kw or {}, verifying=True, contract=c)
                except PyRaise:
                    pass
                logs.append(tuple(st.ghost.get("codec_log", [])))
            except PathEnd:
                pass
            work.extend(st.pending)
        return logs

    def text(ex, name):
        return SStr((Opaque("any-text"),))

    def anybytes(ex, name):
        b, ln = Base(name), z3.Int(name + "_len")
        from .values import mk_bool
        ex.st.assume(mk_bool(ln >= 0))
        return SBytes.view(b, 0, ln)

    enc = run(H + "val2bytes", {"val": text, "att": ("const", "CH")})
    dec = run(H + "bytes2val", {"valb": anybytes, "att": ("const", "CH")})
    enc_pairs = sorted({(e, h) for log in enc for (d, e, h) in log if d == "encode"})
    dec_pairs = sorted({(e, h) for log in dec for (d, e, h) in log if d == "decode"})

    def norm(p):
        return (str(p[0]).lower().replace("_", "-").replace("utf8", "utf-8"), p[1])

    ok = len(enc_pairs) == 1 and len(dec_pairs) == 1 and norm(enc_pairs[0]) == norm(dec_pairs[0])
    ob = Obligation("text-codec[CH]/same-codec-both-ways", "ensures")
    ob.status = "unsat" if ok else "sat"
    ob.backend = "eval"
    ob.detail = f"val2bytes encodes CH text with {enc_pairs}, bytes2val decodes it with {dec_pairs}"
    ob.inputs = {"encode": repr(enc_pairs), "decode": repr(dec_pairs)}
    col.obligations.append(ob)
    res.functions += [H + "val2bytes", H + "bytes2val"]


def replay_text_codec(o):
    """native witness: a string whose CH encoding does not decode back to it"""
    import pyubx2.ubxhelpers as hlp
    for s in ("caf\u00e9", "\u20ac", "\u00ff", "na\u00efve \u4e2d", "x"):
        try:
            back = hlp.bytes2val(hlp.val2bytes(s, "CH"), "CH")
        except Exception as e:  # noqa
            return {"reproduced": True, "observed": f"{type(e).__name__} for text {s!r}: {e}"}
        if back != s:
            return {"reproduced": True, "observed": f"val2bytes({s!r}, CH) = {hlp.val2bytes(s, 'CH')!r} decodes to {back!r}"}
    return {"reproduced": False, "note": "sample strings round-trip"}
