"""
Configuration-database messages (C14): symbolic item lists for config_set / config_del / config_poll.

cfgData is modelled as a *symbolic sequence*: symbolic length N, item k = (key_k, val_k) given by uninterpreted
functions of k.  The `for cfgItem in cfgData` loops are cut by the invariant  lis == ENC(cfgData, k)  where ENC is the
specification of the item list's byte layout:

    ENC(d, 0)   = b""
    ENC(d, k+1) = ENC(d, k) + u32le(kid_k) [+ enc(type_k, val_k)]        kid_k, type_k: database lookup of key_k

ENC is represented by a ghost byte array with prefix offsets OFF(k); the defining facts for item k are instantiated when
ENC(d, k+1) is evaluated.  The type of item k is decided by a finite case split (one case per attribute type in the
database / per size code for unknown IDs), so one arbitrary iteration covers heterogeneous lists.
"""
from __future__ import annotations

import z3

from . import extract
from .values import (Sym, SInt, SBool, SBytes, SStr, SFloat, Ref, Opaque, Unsupported, Base, zint, zbool, mk_int,
                     mk_bool, fresh_name, IntS, FSort)


def cfgdb():
    mod = extract.load_module("pyubx2.ubxtypes_configdb")[0]
    return mod.UBX_CONFIG_DATABASE, mod.UBX_CONFIG_STORSIZE


class SymSeq(Sym):
    """symbolic list of configuration items.  form: 'name' (keys are database key names) or 'id' (integer key IDs);
    with_values: items are (key, value) tuples (config_set) or bare keys (config_del / config_poll)"""

    def __init__(self, st, name, form, with_values):
        self.name = name
        self.form = form
        self.with_values = with_values
        self.n = z3.Int(name + "_len")
        st.assume(mk_bool(self.n >= 0))
        self.kid = z3.Function(name + "_kid", IntS, IntS)  # key ID of item k
        self.vint = z3.Function(name + "_vint", IntS, IntS)
        self.vflt = z3.Function(name + "_vflt", IntS, FSort)
        self.vbytes = Base(name + "_vbytes")  # item k's bytes value lives at [16k, 16k+8)
        self.encbase = Base(name + "_enc")
        self.off = z3.Function(name + "_off", IntS, IntS)
        self.types = []  # (index term, type string) decided on this path
        st.assume(mk_bool(self.off(0) == 0))

    def item(self, ex, kz):
        key = SymKey(self, kz) if self.form == "name" else SymKeyInt(self, kz)
        if self.form == "id":
            ex.st.assume(mk_bool(z3.And(self.kid(kz) >= 0, self.kid(kz) < (1 << 31))))
        if self.with_values:
            return (key, LateVal(self, kz))
        return key

    def type_of(self, kz):
        for (t, typ) in self.types:
            d = z3.simplify(t - kz)
            if z3.is_int_value(d) and d.as_long() == 0:
                return typ
        return None


class SymKey(Sym):
    """key of item k: a database key name (opaque text) or an integer key ID"""

    def __init__(self, seq, k):
        self.seq, self.k = seq, k


class SymKeyInt(SInt):
    """integer key ID of item k (behaves as the symbolic int kid(k))"""
    __slots__ = ("seq", "k")

    def __init__(self, seq, k):
        super().__init__(seq.kid(k))
        self.seq, self.k = seq, k


class LateVal(Sym):
    """value of item k; its Python kind is fixed by the key's type, known only after the lookup"""

    def __init__(self, seq, k):
        self.seq, self.k = seq, k

    def resolve(self, ex, T):
        """symbolic value of the kind and range of type T (C14's premise: every value in its type's range)"""
        st = ex.st
        seq, k = self.seq, self.k
        n = int(T[1:4])
        L = T[0]
        if L in "EILU":
            v = seq.vint(k)
            lo, hi = (-(1 << (8 * n - 1)), 1 << (8 * n - 1)) if L == "I" else (0, 1 << (8 * n))
            st.assume(mk_bool(z3.And(v >= lo, v < hi)))
            return SInt(v)
        if L == "X":
            return SBytes.view(seq.vbytes, z3.simplify(16 * k), n)
        if L == "R":
            f = seq.vflt(k)
            if n == 4:
                from contracts.specs import FITS32
                st.assume(mk_bool(FITS32(f)))
            return SFloat(f)
        raise Unsupported(f"configuration value of type {T}")


def decide_type(ex, seq, k, known=True):
    """case split on the attribute type of item k's key (finite: the types occurring in the database, then the size
    codes for IDs that are not in it).  Returns (kid term, type string) or raises the lookup's UBXMessageError."""
    st = ex.st
    db, stor = cfgdb()
    kid = seq.kid(k)
    st.assume(mk_bool(z3.And(kid >= 0, kid < (1 << 31))))
    prev = seq.type_of(k)
    if prev is not None:
        return kid, prev
    bytype = {}
    seen = set()
    for name, (i, typ) in db.items():
        if i not in seen:
            seen.add(i)
            bytype.setdefault(typ, []).append(i)
    for typ in sorted(bytype):
        if st.branch(mk_bool(z3.Or(*[kid == i for i in bytype[typ]]))):
            seq.types.append((k, typ))
            st.labels.append(f"item-type:{typ}")
            return kid, typ
    if seq.form == "name":
        return kid, None  # a name that is not in the database
    for code, size in sorted(stor.items()):
        if st.branch(mk_bool(z3.And(kid >= (1 << 28), (kid / (1 << 28)) % 8 == code))):
            typ = "X%03d" % size
            seq.types.append((k, typ))
            st.labels.append(f"item-type:unknown-id:{typ}")
            return kid, typ
    return kid, None


def model_cfgname2key(ex, args, kwargs):
    """cfgname2key for a symbolic key name: its proved per-name contract (result == database entry; UBXMessageError for
    an unknown name) applied to an arbitrary name"""
    key = args[0]
    if not isinstance(key, SymKey):
        return NotImplemented
    import pyubx2.exceptions as ube
    kid, typ = decide_type(ex, key.seq, key.k)
    if typ is None:
        ex.bm.raise_(ube.UBXMessageError, "Undefined configuration database key")
    return (SInt(kid), typ)


def model_cfgkey2name(ex, args, kwargs):
    key = args[0]
    if not isinstance(key, (SymKey, SymKeyInt)):
        return NotImplemented
    import pyubx2.exceptions as ube
    kid, typ = decide_type(ex, key.seq, key.k)
    if typ is None:
        ex.bm.raise_(ube.UBXMessageError, "Invalid configuration database key")
    return (SStr(("CFG_", Opaque("name"))), typ)


def enc(ex, seq, k):
    """ENC(seq, k) as a rope; evaluating it at k instantiates the defining facts of item k-1"""
    st = ex.st
    kz = zint(k)
    off = seq.off
    c = z3.simplify(kz)
    if z3.is_int_value(c) and c.as_long() == 0:
        return b""
    prev = z3.simplify(kz - 1)
    typ = seq.type_of(prev)
    st.assume(mk_bool(off(prev) >= 0))
    if typ is not None or not seq.with_values:
        w = int(typ[1:4]) if (typ is not None and seq.with_values) else 0
        st.assume(mk_bool(off(kz) == off(prev) + 4 + w))
        keyb = SBytes.view(seq.encbase, off(prev), 4)
        st.assume(mk_bool(zint(ex.bm.int_from_bytes(keyb, "little", signed=False)) == seq.kid(prev)))
        if w:
            valb = SBytes.view(seq.encbase, z3.simplify(off(prev) + 4), w)
            val = LateVal(seq, prev).resolve(ex, typ)
            L = typ[0]
            if L in "EILU":
                st.assume(mk_bool(zint(ex.bm.int_from_bytes(valb, "little", signed=(L == "I"))) == zint(val)))
            elif L == "X":
                for j in range(w):
                    st.assume(mk_bool(valb.at(j) == val.at(j)))
            elif L == "R":
                from .builtins_model import PACKF
                for j in range(w):
                    st.assume(mk_bool(valb.at(j) == PACKF(z3.IntVal(w), val.e, z3.IntVal(j))))
    return SBytes.view(seq.encbase, 0, off(kz))


def s_cfg_enc(ex, d, k):
    if not isinstance(d, SymSeq):
        raise Unsupported("cfg_enc of a concrete list")
    return enc(ex, d, k)


def install(reg):
    reg.spec("cfg_enc", s_cfg_enc, None)


# ---------------------------------------------------------------------------------------------------------
# lookup functions against their contracts, per database entry (instance mode over the keys) + residual
# ---------------------------------------------------------------------------------------------------------
def lookup_chunk_unit(ctx, res, col, reg, lo, hi):
    """cfgkey2name / cfgname2key bodies against their contracts for database entries lo..hi (concrete key each)"""
    from .verify import verify_function
    from .contracts import Contract
    db, stor = cfgdb()
    reg.models.pop("pyubx2.ubxhelpers.cfgname2key", None)
    reg.models.pop("pyubx2.ubxhelpers.cfgkey2name", None)
    names = list(db.items())[lo:hi]
    ck = reg.contracts["pyubx2.ubxhelpers.cfgkey2name"]
    cn = reg.contracts["pyubx2.ubxhelpers.cfgname2key"]
    for name, (kid, typ) in names:
        c1 = Contract(ck.qualname, params={"keyid": ("const", kid)}, requires=ck.requires, ensures=ck.ensures,
                      raises=ck.raises, raises_iff=ck.raises_iff, modifies=[])
        verify_function(reg, c1, col, label=f"cfgkey2name[{name}]")
        c2 = Contract(cn.qualname, params={"name": ("const", name)}, ensures=cn.ensures, raises=cn.raises,
                      raises_iff=cn.raises_iff, modifies=[])
        verify_function(reg, c2, col, label=f"cfgname2key[{name}]")
    res.functions += [ck.qualname, cn.qualname]


def lookup_residual_unit(ctx, res, col, reg):
    """cfgkey2name for a symbolic key ID that is not in the database (size codes 1..5 -> CFG_0x.. typed X of the
    prescribed width; other size codes refused), and cfgname2key for an unknown name"""
    from .verify import verify_function
    from .contracts import Contract
    reg.models.pop("pyubx2.ubxhelpers.cfgname2key", None)
    reg.models.pop("pyubx2.ubxhelpers.cfgkey2name", None)
    db, stor = cfgdb()
    ck = reg.contracts["pyubx2.ubxhelpers.cfgkey2name"]
    kids = sorted({k for k, _ in db.values()})

    def setup(ex, env):
        k = zint(env["keyid"])
        # every integer that is not a documented key ID (negative, narrower and wider than 32 bits included)
        ex.st.assume(mk_bool(z3.And(*[k != i for i in kids])))

    c1 = Contract(ck.qualname, params={"keyid": "int"}, requires=ck.requires, ensures=ck.ensures, raises=ck.raises,
                  raises_iff=ck.raises_iff, modifies=[], setup=setup)
    verify_function(reg, c1, col, label="cfgkey2name[unknown id]")
    cn = reg.contracts["pyubx2.ubxhelpers.cfgname2key"]
    c2 = Contract(cn.qualname, params={"name": ("const", "CFG_NO_SUCH_KEY")}, ensures=cn.ensures, raises=cn.raises,
                  raises_iff=cn.raises_iff, modifies=[])
    verify_function(reg, c2, col, label="cfgname2key[unknown name]")


def name_id_agreement(ctx):
    """ground: ID-to-name of name-to-ID is the identity on every database entry (needs unique IDs)"""
    from pyubx2.ubxhelpers import cfgname2key, cfgkey2name
    db, _ = cfgdb()
    for name, (kid, typ) in db.items():
        try:
            k, t = cfgname2key(name)
            back = cfgkey2name(k)
            ok = (k, t) == (kid, typ) and back == (name, typ)
            detail = "" if ok else f"cfgkey2name(cfgname2key({name!r})[0]) == {back!r}"
        except Exception as e:  # noqa
            ok, detail = False, f"{type(e).__name__}: {e}"
        yield (f"cfgdb[{name}]:name-id-agree", ok, detail, {"key": name})


def replay_lookup(o):
    """native search for a key ID / name on which the real lookup functions deviate from the documented lookup"""
    import random
    from pyubx2.ubxhelpers import cfgkey2name, cfgname2key
    from contracts.specs import n_cfgkey2name_spec
    import pyubx2.exceptions as ube
    db, stor = cfgdb()
    info = {"reproduced": False}
    rnd = random.Random(99)
    kids = [k for k, _ in db.values()]
    cands = list(kids)
    for k in kids[::7]:
        for b in range(32):
            cands.append(k ^ (1 << b))
    cands += [rnd.randrange(1 << 28, 1 << 32) for _ in range(20000)]
    cands += list(range(0, 70)) + [d << s_ for d in range(1, 16) for s_ in range(0, 36, 4)] + [-1, -(1 << 28), 1 << 32, (1 << 32) + 5]
    cands += [rnd.randrange(0, 1 << 28) for _ in range(5000)]
    for k in cands:

        try:
            want = ("ok", n_cfgkey2name_spec(k))
        except KeyError:
            want = ("err", None)
        try:
            got = ("ok", cfgkey2name(k))
        except ube.UBXMessageError:
            got = ("err", None)
        except Exception as e:  # noqa
            got = ("exc", type(e).__name__)
        if got != want:
            info.update(reproduced=True, inputs={"keyid": hex(k)},
                        observed=f"cfgkey2name({hex(k)}) -> {got!r}; the documented lookup gives {want!r}")
            return info
    for name, (kid, typ) in db.items():
        try:
            if cfgname2key(name) != (kid, typ):
                info.update(reproduced=True, inputs={"name": name}, observed=f"cfgname2key({name!r}) != {(kid, typ)!r}")
                return info
        except Exception as e:  # noqa
            info.update(reproduced=True, inputs={"name": name}, observed=f"{type(e).__name__}")
            return info
    info["note"] = f"{len(cands)} key IDs and all names agree with the documented lookup natively"
    return info


def replay_tables_untouched(o):
    """native confirmation of a frame violation: parse / look up unknown keys, then compare the shared tables"""
    import copy
    import pyubx2
    from pyubx2.ubxhelpers import cfgkey2name
    info = {"reproduced": False}
    before = (dict(pyubx2.UBX_CONFIG_DATABASE), dict(pyubx2.UBX_MSGIDS))
    for k in (0x10990001, 0x20990002, 0x50990003):
        try:
            cfgkey2name(k)
        except Exception:  # noqa
            pass
    after = (dict(pyubx2.UBX_CONFIG_DATABASE), dict(pyubx2.UBX_MSGIDS))
    if before != after:
        info.update(reproduced=True, observed=f"UBX_CONFIG_DATABASE has {len(after[0])} entries after looking up unknown key IDs, {len(before[0])} before")
    return info
