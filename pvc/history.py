"""
History / interleaving probe (bounded stand-in for C13's "whatever was processed before", and the native replayer of a
failed frame obligation).

    python -m pvc.history <probe-seed> <order> [threads]       (run as a fresh subprocess by `probe`)

builds a deterministic list of operations from <probe-seed> (parse conforming and random payloads of every definition in
every mode and both bitfield views, str/repr/serialize of the results, keyword construction, SETPOLL parsing through
UBXReader.parse, configuration-database lookups and CFG-VAL* builders, msgstr2bytes ...), executes them in the order
named by <order> (fwd | rev | shuf<k>), optionally spread over worker threads, and prints a JSON object
{results: {op index: digest of the observable result}, tables_before, tables_after, stdout_bytes}.
The parent compares the per-operation results of differently ordered runs (each in a fresh interpreter) and the table
snapshots.  Any difference is a concrete history dependence: the two orders and the operation are the witness.
"""
from __future__ import annotations

import hashlib
import json
import os
import random
import subprocess
import sys

VERIF = os.path.dirname(os.path.dirname(os.path.abspath(__file__)))


def _tables_digest():
    """digest of every module-level container of the table modules (deep repr; dict order included)"""
    import pyubx2  # noqa
    out = {}
    for mname, mod in sorted(sys.modules.items()):
        if not (mname.startswith("pyubx2.ubxtypes_") or mname == "pyubx2.ubxvariants") or mod is None:
            continue  # the shared definition / configuration tables (other module state shows up as history dependence)
        for k, v in sorted(vars(mod).items()):
            if k.startswith("__"):
                continue
            if isinstance(v, (dict, list, set, bytearray)):
                out[f"{mname}.{k}"] = hashlib.sha256(repr(v).encode()).hexdigest()[:16]
    return out


def build_ops(seed):
    sys.path.insert(0, VERIF)
    from pvc.bounded import _conforming_payloads
    import pyubx2
    from pyubx2 import UBX_MSGIDS, UBX_PAYLOADS_GET, UBX_PAYLOADS_SET, UBX_PAYLOADS_POLL
    import pyubx2.ubxtypes_configdb as cdb
    rnd = random.Random(seed)
    tabs = [UBX_PAYLOADS_GET, UBX_PAYLOADS_SET, UBX_PAYLOADS_POLL]
    names2key = {}
    for k, v in UBX_MSGIDS.items():
        names2key.setdefault(v, k)
    ops = []
    for mode, tab in enumerate(tabs):
        for name, defn in tab.items():
            key = names2key.get(name)
            if key is None:
                continue
            try:
                pls = _conforming_payloads(defn, rnd)
            except Exception:  # noqa
                pls = []
            for pl in pls:
                if len(key) == 3 and pl:
                    pl = key[2:3] + pl[1:]
                for pbf in (True, False):
                    ops.append(("ctor", key[0:1], key[1:2], mode, pl, pbf))
            try:
                from contracts.oracle import parse_def, Group
                counts = tuple(sorted({e.count for e in parse_def(defn) if isinstance(e, Group) and isinstance(e.count, str)
                                       and e.count != "None"}))
            except Exception:  # noqa
                counts = ()
            cname = pyubx2.UBX_CLASSES.get(key[0:1])
            if cname is None:
                continue
            ops.append(("kw", cname, name, mode, counts))
            ops.append(("kw", cname, name, mode, counts))  # twice: the holder of the first may change its list values
            if pls:
                ops.append(("parse", key[0:1], key[1:2], mode, pls[-1]))
    # multi-layout messages whose layout is chosen by a payload byte: one payload per layout, all of the SAME length
    # (a state kept across calls that is keyed by class/ID, mode or length then shows up as an order dependence)
    try:
        from contracts.oracle import expected_definition_rules
        modeidx = {"GET": 0, "SET": 1, "POLL": 2}
        keys2 = sorted({k[0:2] for k in UBX_MSGIDS})
        for mname, midx in modeidx.items():
            for key in keys2:
                rules = expected_definition_rules(mname, key, UBX_MSGIDS)
                if rules is None:
                    continue
                conds = [c for c, _ in rules["payload"]]
                byte_conds = [c for c in conds if c[0] == "byte"]
                if not byte_conds:
                    continue
                pos = byte_conds[0][1]
                vals = [c[2] for c in byte_conds if c[1] == pos]
                other = next(v for v in range(256) if v not in vals)
                for L in (40, 528):
                    for v in vals[:6] + [other]:
                        for fill in (0, 1):
                            pl = bytearray([fill]) * L
                            pl[pos] = v
                            ops.append(("ctor", key[0:1], key[1:2], midx, bytes(pl), True))
    except Exception:  # noqa
        pass
    # unknown classes / IDs, short and long payloads
    for _ in range(40):
        ops.append(("ctor", bytes([rnd.randrange(256)]), bytes([rnd.randrange(256)]), rnd.randrange(3),
                    bytes(rnd.randrange(256) for _ in range(rnd.choice([0, 1, 2, 4, 8, 33]))), True))
    keys = list(cdb.UBX_CONFIG_DATABASE.items())
    for _ in range(40):
        nm, (kid, typ) = rnd.choice(keys)
        ops.append(("cfgkey2name", kid))
        ops.append(("cfgname2key", nm))
        ops.append(("cfgkey2name", kid ^ (1 << rnd.randrange(0, 12))))
        ops.append(("config_poll", rnd.randrange(4), rnd.randrange(3), [nm, kid]))
        ops.append(("config_del", rnd.randrange(8), rnd.randrange(2), [kid, nm]))
    for cname, mname in (("CFG", "CFG-MSG"), ("NAV", "NAV-PVT"), ("ACK", "ACK-ACK"), ("MGA", "MGA-GPS-EPH"), ("XXX", "YYY")):
        ops.append(("msgstr2bytes", cname, mname))
        ops.append(("msgstr2bytes", "NAV", mname))
        ops.append(("msgstr2bytes", cname, "NAV-PVT"))
    return ops


def run_op(op):
    import pyubx2
    from pyubx2 import UBXMessage, UBXReader
    import pyubx2.ubxhelpers as H
    kind = op[0]
    try:
        if kind == "ctor":
            _, c, i, mode, pl, pbf = op
            m = UBXMessage(c, i, mode, payload=pl, parsebitfield=pbf) if pl else UBXMessage(c, i, mode)
            pub = [(k, repr(v)) for k, v in m.__dict__.items() if not k.startswith("_")]
            return repr((str(m), repr(m), m.serialize().hex(), m.identity, pub))
        if kind == "kw":
            _, c, name, mode, counts = op
            # nominal values for everything, one repeat of every counted group
            m = UBXMessage(c, name, mode, unusedkeyword=0, **{k: 1 for k in counts})
            res = repr((str(m), m.serialize().hex()))
            # what a holder of the message may legitimately do afterwards: change a list it was handed (array
            # attributes are plain lists).  No later result may depend on that.
            for k, v in list(m.__dict__.items()):
                if isinstance(v, list) and not k.startswith("_"):
                    v.append(7)
            return res
        if kind == "parse":
            _, c, i, mode, pl = op
            raw = UBXMessage(c, i, mode, payload=pl).serialize()
            out = []
            for mm in (mode, 0x03 if mode else 0):
                try:
                    out.append(str(UBXReader.parse(raw, msgmode=mm)))
                except Exception as e:  # noqa
                    out.append(f"{type(e).__name__}:{e}")
            return repr(out)
        if kind == "cfgkey2name":
            return repr(H.cfgkey2name(op[1]))
        if kind == "cfgname2key":
            return repr(H.cfgname2key(op[1]))
        if kind == "config_poll":
            return UBXMessage.config_poll(op[1], op[2], op[3]).serialize().hex()
        if kind == "config_del":
            return UBXMessage.config_del(op[1], op[2], op[3]).serialize().hex()
        if kind == "msgstr2bytes":
            return repr(H.msgstr2bytes(op[1], op[2]))
    except Exception as e:  # noqa
        return f"raised {type(e).__name__}: {e}"
    return "?"


def child_main(argv):
    seed, order = int(argv[0]), argv[1]
    threads = int(argv[2]) if len(argv) > 2 else 0
    src = os.environ.get("PVC_REPO_SRC", "/repo/src")
    sys.path.insert(0, src)
    import io
    import contextlib
    ops = build_ops(seed)
    idx = list(range(len(ops)))
    if order == "rev":
        idx.reverse()
    elif order.startswith("shuf"):
        random.Random(int(order[4:] or 1)).shuffle(idx)
    before = _tables_digest()
    results = {}
    buf_o, buf_e = io.StringIO(), io.StringIO()
    with contextlib.redirect_stdout(buf_o), contextlib.redirect_stderr(buf_e):
        if threads:
            import threading
            parts = [idx[k::threads] for k in range(threads)]

            def work(part):
                for i in part:
                    results[i] = hashlib.sha256(run_op(ops[i]).encode()).hexdigest()[:20]

            ts = [threading.Thread(target=work, args=(p,)) for p in parts]
            sys.setswitchinterval(1e-5)
            for t in ts:
                t.start()
            for t in ts:
                t.join()
        else:
            for i in idx:
                results[i] = hashlib.sha256(run_op(ops[i]).encode()).hexdigest()[:20]
    after = _tables_digest()
    sys.__stdout__.write(json.dumps({"n": len(ops), "results": {str(k): v for k, v in results.items()},
                                     "tables_before": before, "tables_after": after,
                                     "stdout_bytes": len(buf_o.getvalue()), "stderr_bytes": len(buf_e.getvalue()),
                                     "stdout_head": buf_o.getvalue()[:200], "stderr_head": buf_e.getvalue()[:200]}))
    return 0


def _run_child(seed, order, threads=0):
    env = dict(os.environ)
    cmd = [sys.executable, "-m", "pvc.history", str(seed), order] + ([str(threads)] if threads else [])
    p = subprocess.run(cmd, cwd=VERIF, env=env, capture_output=True, text=True, timeout=600)
    if p.returncode != 0:
        raise RuntimeError(f"history probe child failed: {p.stderr[-500:]}")
    return json.loads(p.stdout)


def describe_op(seed, i):
    """human-readable operation i of the probe list (for the witness)"""
    sys.path.insert(0, os.environ.get("PVC_REPO_SRC", "/repo/src"))
    op = build_ops(seed)[i]
    return repr(op)[:300]


def probe(seed, orders=("fwd", "rev", "shuf1"), threads=(4,)):
    """-> (cases, failures[]) ; failures carry the operation, the two orders and what differed"""
    fails = []
    runs = {}
    for o in orders:
        runs[o] = _run_child(seed, o)
    for t in threads:
        runs[f"fwd/{t}threads"] = _run_child(seed, "fwd", t)
    base = runs[orders[0]]
    cases = 0
    for name, r in runs.items():
        changed = sorted(k for k in set(r["tables_before"]) | set(r["tables_after"])
                         if r["tables_before"].get(k) != r["tables_after"].get(k))
        if changed:
            fails.append({"case": f"tables[{name}]", "detail": f"module-level containers changed by the run: {changed[:6]}",
                          "inputs": {"probe_seed": seed, "order": name}})
        if r["stdout_bytes"] or r["stderr_bytes"]:
            fails.append({"case": f"output[{name}]", "detail": f"{r['stdout_bytes']} bytes written to stdout, {r['stderr_bytes']} "
                          f"to stderr: {(r['stdout_head'] or r['stderr_head'])!r}"[:240], "inputs": {"probe_seed": seed, "order": name}})
        if name == orders[0]:
            cases += r["n"]
            continue
        diff = sorted((int(k) for k in base["results"] if base["results"][k] != r["results"].get(k)))
        cases += r["n"]
        for i in diff[:5]:
            fails.append({"case": f"history[{name}]:op{i}", "detail": f"operation {describe_op(seed, i)} gives a different result in "
                          f"order {name} than in order {orders[0]} ({len(diff)} operations differ)"[:400],
                          "inputs": {"probe_seed": seed, "order_a": orders[0], "order_b": name, "op_index": i}})
    return cases, fails


def history_unit(ctx, tier, seed):
    seeds = [seed + 4242] if tier == "quick" else [seed + 4242 + k for k in range(6)]
    cases, fails = 0, []
    for s in seeds:
        c, f = probe(s, orders=("fwd", "rev", "shuf1") if tier == "quick" else ("fwd", "rev", "shuf1", "shuf2", "shuf3"),
                     threads=(4,) if tier == "quick" else (2, 4, 8))
        cases += c
        fails += f
    return {"what": "history and thread independence on the real code: the same operations (construct/parse every "
                    "definition x both views, str/repr/serialize, keyword builds, config lookups and builders) executed in "
                    "different orders in fresh interpreters and spread over threads give identical per-operation results; "
                    "module-level containers and stdout/stderr untouched",
            "bound": f"{len(seeds)} probe list(s) x orders fwd/rev/shuffled + threaded runs", "cases": cases,
            "failures": fails[:20], "exhaustive": False}


if __name__ == "__main__":
    sys.exit(child_main(sys.argv[1:]))
