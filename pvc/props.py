"""
Per-property plans: which units (function contracts, lemmas, instances, ground checks, bounded stand-ins,
canaries) decide each property.  The property -> obligation mapping lives here.
"""
from __future__ import annotations

import os

from . import extract
from .units import FuncUnit, LemmaUnit, CustomUnit, GroundUnit, BoundedUnit

VERIF = os.path.dirname(os.path.dirname(os.path.abspath(__file__)))

A_PY = [
    "A-PY1 Python ints are mathematical integers (exact)",
    "A-PY2 bytes are finite sequences of ints 0..255 compared extensionally (rope encoding over uninterpreted arrays)",
    "A-PY3 dict iteration order is insertion order; module tables are only read (writes are charged to ghost 'tables')",
    "A-PY4 the engine's models of CPython built-ins (slicing, int.to_bytes/from_bytes, isinstance, struct, dict, "
    "list, str formatting) match CPython 3.12 - differentially tested, not proved",
    "A-PY5 no monkey-patching, signals or threads inside one call",
    "A-PY6 unbounded recursion depth and memory (no RecursionError / MemoryError)",
]

T_ENGINE = "pvc symbolic executor and its VC generation (this repository, /verif/pvc) - tested by canaries and difftest"
T_SOLVER = "z3 5.1.0 (and cvc5 1.0.3 for VCs z3 leaves unknown) answer `unsat` only for unsatisfiable VCs"


class Plan:
    def __init__(self, prop):
        self.prop = prop
        self.units = []
        self.level = "proof"
        self.min_obligations = 1
        self.trusted_base = [T_ENGINE, T_SOLVER]
        self.assumptions = list(A_PY)
        self.instances = None
        self.exhaustive = False
        self.explanation = ""
        self.replayers = {}
        self.unit_contracts = {}  # unit name -> (qualname, family member | None)
        self.digest = extract.source_digest([os.path.join(VERIF, "pvc"), os.path.join(VERIF, "contracts")])

    def add(self, unit):
        self.units.append(unit)
        if isinstance(unit, FuncUnit):
            self.unit_contracts[unit.name] = (unit.qualname, unit.member)
        return unit

    def func(self, qualname, member=None, **kw):
        return self.add(FuncUnit(qualname, member, props=(self.prop,), **kw))

    def canary(self, name, module, old, new, unit):
        """in-memory patch of the real source (the tree is not touched); the unit must then fail"""
        src = extract.module_source(module)
        unit.canary = name
        unit.name = f"canary:{name}"
        if src.count(old) < 1:
            unit.override = None
            skip = SkippedCanary(unit.name)
            skip.canary = name
            self.units.append(skip)
            return skip
        unit.override = (module, src.replace(old, new))
        self.units.append(unit)
        return unit


class SkippedCanary(CustomUnit):
    def __init__(self, name):
        super().__init__(name, _skip_fn)

    def run(self, ctx):
        from .units import UnitResult
        r = UnitResult(self.name, "custom")
        r.info["skipped"] = True
        return r


def _skip_fn(*a):
    return None


H = "pyubx2.ubxhelpers."
M = "pyubx2.ubxmessage.UBXMessage."
R = "pyubx2.ubxreader.UBXReader."


def plan(prop, tier, seed):
    fn = globals().get("plan_" + prop)
    if fn is None:
        raise KeyError(f"no plan for property {prop}")
    p = Plan(prop)
    fn(p, tier, seed)
    return p


# ----------------------------------------------------------------------------------------------- C05
def plan_C05(p, tier, seed):
    p.explanation = (
        "UBXReader.parse is verified against its contract for every byte string (symbolic length, Python slice "
        "wrap-around modelled): normal return under VALCKSUM implies wf_frame(message), where wf_frame is the "
        "independent definition (sync chars, length field == actual payload length, Fletcher-8 of class..payload). "
        "calc_checksum is proved equal to the Fletcher spec by a loop invariant over unreduced sums. The corruption "
        "clause is a corollary (an edited frame is accepted only if it is itself well-formed). VALNONE: lemma that "
        "none of the constructor arguments parse derives depends on the last two bytes.")
    p.func(R + "parse")
    p.func(H + "calc_checksum")
    p.func(H + "isvalid_checksum")
    p.func(H + "getinputmode")
    p.add(LemmaUnit(
        "lemma.C05/valnone-args-independent-of-checksum", "pyubx2.ubxreader",
        {"f": "bytes", "ck": ("bytesn", 2)},
        ["len(f) >= 8"],
        [("class", "(f[0:len(f) - 2] + ck)[2:3] == f[2:3]"),
         ("id", "(f[0:len(f) - 2] + ck)[3:4] == f[3:4]"),
         ("lenfield", "(f[0:len(f) - 2] + ck)[4:6] == f[4:6]"),
         ("payload", "(f[0:len(f) - 2] + ck)[6:len(f) - 2] == f[6:len(f) - 2]"),
         ("mode", "getinputmode_spec(f[0:len(f) - 2] + ck) == getinputmode_spec(f)")],
        props=("C05",)))
    p.min_obligations = 20
    p.trusted_base += ["constructor contract UBXMessage.__init__ (used modularly here; proved per definition in C01/C08)"]
    p.canary("parse-drop-checksum-test", "pyubx2.ubxreader", "            if ckm != ckv:", "            if False:",
             FuncUnit(R + "parse"))
    p.canary("parse-length-lt", "pyubx2.ubxreader", "or lenm != leni + 8:", "or lenm < leni + 8:",
             FuncUnit(R + "parse"))
    p.canary("checksum-b-plus-char", "pyubx2.ubxhelpers", "check_b += check_a", "check_b += char",
             FuncUnit(H + "calc_checksum"))


# ----------------------------------------------------------------------------------------------- C18
def plan_C18(p, tier, seed):
    from contracts.helpers import type_constants, tsize, int_range, INT_LETTERS
    p.explanation = (
        "Per attribute type constant of the working tree: val2bytes / bytes2val / nomval are verified against "
        "contracts stating width, little-endian / two's-complement value, refusal (OverflowError iff out of range), "
        "and the inverse laws are proved as lemmas over those contracts for symbolic values (all values, not "
        "samples; wide types by a per-digit lemma chain). Fletcher: loop invariant against unreduced sums.")
    types = type_constants()
    for T in types:
        p.func(H + "val2bytes", T)
        p.func(H + "bytes2val", T)
        p.func(H + "nomval", T)
        n = tsize(T)
        if T[0] in INT_LETTERS:
            lo, hi = int_range(T)
            p.add(LemmaUnit(f"lemma.C18/dec-enc[{T}]", "pyubx2.ubxhelpers", {"v": "int"},
                            [f"{lo} <= v < {hi}"], f"bytes2val(val2bytes(v, '{T}'), '{T}') == v", props=("C18",)))
            p.add(LemmaUnit(f"lemma.C18/enc-dec[{T}]", "pyubx2.ubxhelpers", {"b": ("bytesn", n)},
                            [], f"val2bytes(bytes2val(b, '{T}'), '{T}') == b", props=("C18",)))
            p.add(LemmaUnit(f"lemma.C18/nominal-is-zero[{T}]", "pyubx2.ubxhelpers", {},
                            [], f"val2bytes(nomval('{T}'), '{T}') == bytes({n})", props=("C18",)))
        elif T[0] in ("X", "C") and T != "CH":
            p.add(LemmaUnit(f"lemma.C18/dec-enc[{T}]", "pyubx2.ubxhelpers", {"v": ("bytesn", n)},
                            [], f"bytes2val(val2bytes(v, '{T}'), '{T}') == v and len(val2bytes(v, '{T}')) == {n}",
                            props=("C18",)))
            p.add(LemmaUnit(f"lemma.C18/nominal-is-zero[{T}]", "pyubx2.ubxhelpers", {},
                            [], f"val2bytes(nomval('{T}'), '{T}') == bytes({n})", props=("C18",)))
        elif T[0] == "A":
            p.add(LemmaUnit(f"lemma.C18/enc-dec[{T}]", "pyubx2.ubxhelpers", {"b": ("bytesn", n)},
                            [], f"val2bytes(bytes2val(b, '{T}'), '{T}') == b", props=("C18",)))
            p.add(LemmaUnit(f"lemma.C18/nominal-is-zero[{T}]", "pyubx2.ubxhelpers", {},
                            [], f"val2bytes(nomval('{T}'), '{T}') == bytes({n})", props=("C18",)))
        elif T == "R008":
            p.add(LemmaUnit(f"lemma.C18/dec-enc[{T}]", "pyubx2.ubxhelpers", {"v": "float"},
                            [], f"bytes2val(val2bytes(v, '{T}'), '{T}') == v", props=("C18",)))
    p.func(H + "calc_checksum")
    p.func(H + "isvalid_checksum")
    p.func(H + "protocol")
    p.func(H + "get_bits")
    p.func(H + "msgclass2bytes")
    from . import bounded
    p.add(BoundedUnit("bounded.C18/float-codec", bounded.float_codec, (tier, seed), props=("C18",)))
    p.add(BoundedUnit("bounded.C18/itow-utc", bounded.itow_utc, (tier, seed), props=("C18",)))
    p.add(BoundedUnit("bounded.C18/val2sphp", bounded.val2sphp, (tier, seed), props=("C18",)))
    p.add(BoundedUnit("bounded.C18/att2idx-att2name", bounded.att_names, (tier, seed), props=("C18",)))
    p.min_obligations = 300
    p.instances = {"type_constants": len(types)}
    p.exhaustive = True
    p.assumptions += ["T-IEEE struct.pack/unpack('<d') are inverse on Python floats (IEEE-754 binary64); "
                      "float32 rounding is outside SMT reach: R004 and scaled values are bounded stand-ins",
                      "datetime/timedelta arithmetic (itow2utc/utc2itow), float arithmetic (val2sphp) and str.split "
                      "(att2idx/att2name) are not modelled: bounded stand-ins, never counted as proved"]
    p.canary("val2bytes-big-endian", "pyubx2.ubxhelpers", 'valb = val.to_bytes(attsiz(att), byteorder="little"',
             'valb = val.to_bytes(attsiz(att), byteorder="big"', FuncUnit(H + "val2bytes", "U004"))
    p.canary("attsiz-wrong-slice", "pyubx2.ubxhelpers", "return int(att[1:4])", "return int(att[1:3])",
             FuncUnit(H + "val2bytes", "U016"))
    p.canary("bytes2val-signed-U", "pyubx2.ubxhelpers",
             'val = int.from_bytes(valb, byteorder="little", signed=atttyp(att) == "I")',
             'val = int.from_bytes(valb, byteorder="little", signed=atttyp(att) == "U")',
             FuncUnit(H + "bytes2val", "I002"))
