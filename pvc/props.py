"""
Per-property plans: which units (function contracts, lemmas, instances, ground checks, bounded stand-ins,
canaries) decide each property.  The property -> obligation mapping lives here.
"""
from __future__ import annotations

import os

from . import extract
from .units import FuncUnit, LemmaUnit, CustomUnit, GroundUnit, BoundedUnit

VERIF = os.path.dirname(os.path.dirname(os.path.abspath(__file__)))

A_PY = [
    "A-PY1 Python ints are mathematical integers (exact)",
    "A-PY2 bytes are finite sequences of ints 0..255 compared extensionally (rope encoding over uninterpreted arrays)",
    "A-PY3 dict iteration order is insertion order; module-level state is the state at import time: discharged for stores, "
    "dels, mutating container calls and memoising decorators rooted at a module-level name by the frame scan over every "
    "function of the package (one alias step through locals); NOT covered: module state reached through deeper aliasing "
    "(a global returned by a helper and then mutated), C extensions, and class attributes mutated through instances",
    "A-PY4 the engine's models of CPython built-ins (slicing, int.to_bytes/from_bytes, isinstance, struct, dict, "
    "list, str formatting) match CPython 3.12 - differentially tested, not proved",
    "A-PY5 no monkey-patching, signals or threads inside one call",
    "A-PY6 unbounded recursion depth and memory (no RecursionError / MemoryError)",
]

T_ENGINE = "pvc symbolic executor and its VC generation (this repository, /verif/pvc) - tested by canaries and difftest"
T_SOLVER = "z3 5.1.0 (and cvc5 1.0.3 for VCs z3 leaves unknown) answer `unsat` only for unsatisfiable VCs"


class Plan:
    def __init__(self, prop):
        self.prop = prop
        self.units = []
        self.level = "proof"
        self.min_obligations = 1
        self.trusted_base = [T_ENGINE, T_SOLVER]
        self.assumptions = list(A_PY)
        self.instances = None
        self.exhaustive = False
        self.explanation = ""
        self.replayers = {}
        self.unit_contracts = {}  # unit name -> (qualname, family member | None)
        self.unit_factories = {}  # unit name -> (module, factory, arg) for contracts built by a sidecar factory
        self.digest = extract.source_digest([os.path.join(VERIF, "pvc"), os.path.join(VERIF, "contracts")])

    def add(self, unit):
        self.units.append(unit)
        if isinstance(unit, FuncUnit):
            self.unit_contracts[unit.name] = (unit.qualname, unit.member)
        if isinstance(unit, CustomUnit) and getattr(unit.fn, "__name__", "") == "factory_unit":
            self.unit_factories[unit.name] = tuple(unit.args[:3])
        return unit

    def func(self, qualname, member=None, **kw):
        return self.add(FuncUnit(qualname, member, props=(self.prop,), **kw))

    def canary(self, name, module, old, new, unit):
        """in-memory patch of the real source (the tree is not touched); the unit must then fail"""
        src = extract.module_source(module)
        unit.canary = name
        unit.name = f"canary:{name}"
        if src.count(old) < 1:
            unit.override = None
            skip = SkippedCanary(unit.name)
            skip.canary = name
            self.units.append(skip)
            return skip
        unit.override = (module, src.replace(old, new))
        self.units.append(unit)
        return unit


class SkippedCanary(CustomUnit):
    def __init__(self, name):
        super().__init__(name, _skip_fn)

    def run(self, ctx):
        from .units import UnitResult
        r = UnitResult(self.name, "custom")
        r.info["skipped"] = True
        return r


def _skip_fn(*a):
    return None


H = "pyubx2.ubxhelpers."
M = "pyubx2.ubxmessage.UBXMessage."
R = "pyubx2.ubxreader.UBXReader."


def plan(prop, tier, seed):
    fn = globals().get("plan_" + prop)
    if fn is None:
        raise KeyError(f"no plan for property {prop}")
    p = Plan(prop)
    fn(p, tier, seed)
    # frame rule over every function of the package (discharges the assumption that module-level state is the state at
    # import time, on which every per-call proof stands); see pvc/framescan.py
    from . import framescan
    u = p.add(GroundUnit(f"ground.{prop}/frame-scan", framescan.frame_scan, (prop,), props=(prop,)))
    p.replayers[u.name] = framescan.replay_frame
    # the contracts this plan proves, evaluated at run time on the real functions for seeded inputs (guards the engine)
    from . import sampling
    names = sorted({u.qualname for u in p.units if isinstance(u, FuncUnit) and not getattr(u, "canary", None)})
    if names:
        p.add(BoundedUnit(f"bounded.{prop}/contract-sampling", sampling.sample_contracts, (tier, seed, names), props=(prop,)))
    if prop == "C13":
        from . import history
        p.add(BoundedUnit("bounded.C13/history-probe", history.history_unit, (tier, seed), props=("C13",)))
    return p


# ----------------------------------------------------------------------------------------------- C05
def plan_C05(p, tier, seed):
    p.explanation = (
        "UBXReader.parse is verified against its contract for every byte string (symbolic length, Python slice "
        "wrap-around modelled): normal return under VALCKSUM implies wf_frame(message), where wf_frame is the "
        "independent definition (sync chars, length field == actual payload length, Fletcher-8 of class..payload). "
        "calc_checksum is proved equal to the Fletcher spec by a loop invariant over unreduced sums. The corruption "
        "clause is a corollary (an edited frame is accepted only if it is itself well-formed). VALNONE: lemma that "
        "none of the constructor arguments parse derives depends on the last two bytes.")
    p.func(R + "parse")
    p.func(H + "calc_checksum")
    p.func(H + "isvalid_checksum")
    p.func(H + "getinputmode")
    p.add(LemmaUnit(
        "lemma.C05/valnone-args-independent-of-checksum", "pyubx2.ubxreader",
        {"f": "bytes", "ck": ("bytesn", 2)},
        ["len(f) >= 8"],
        [("class", "(f[0:len(f) - 2] + ck)[2:3] == f[2:3]"),
         ("id", "(f[0:len(f) - 2] + ck)[3:4] == f[3:4]"),
         ("lenfield", "(f[0:len(f) - 2] + ck)[4:6] == f[4:6]"),
         ("payload", "(f[0:len(f) - 2] + ck)[6:len(f) - 2] == f[6:len(f) - 2]"),
         ("mode", "getinputmode_spec(f[0:len(f) - 2] + ck) == getinputmode_spec(f)")],
        props=("C05",)))
    p.min_obligations = 20
    p.trusted_base += ["constructor contract UBXMessage.__init__ (used modularly here; proved per definition in C01/C08)"]
    p.canary("parse-drop-checksum-test", "pyubx2.ubxreader", "            if ckm != ckv:", "            if False:",
             FuncUnit(R + "parse"))
    p.canary("parse-length-lt", "pyubx2.ubxreader", "or lenm != leni + 8:", "or lenm < leni + 8:",
             FuncUnit(R + "parse"))
    p.canary("checksum-b-plus-char", "pyubx2.ubxhelpers", "check_b += check_a", "check_b += char",
             FuncUnit(H + "calc_checksum"))


# ----------------------------------------------------------------------------------------------- C18
def plan_C18(p, tier, seed):
    from contracts.helpers import type_constants, tsize, int_range, INT_LETTERS
    p.explanation = (
        "Per attribute type constant of the working tree: val2bytes / bytes2val / nomval are verified against "
        "contracts stating width, little-endian / two's-complement value, refusal (OverflowError iff out of range), "
        "and the inverse laws are proved as lemmas over those contracts for symbolic values (all values, not "
        "samples; wide types by a per-digit lemma chain). Fletcher: loop invariant against unreduced sums.")
    types = type_constants()
    for T in types:
        p.func(H + "val2bytes", T)
        p.func(H + "bytes2val", T)
        p.func(H + "nomval", T)
        n = tsize(T)
        if T[0] in INT_LETTERS:
            lo, hi = int_range(T)
            p.add(LemmaUnit(f"lemma.C18/dec-enc[{T}]", "pyubx2.ubxhelpers", {"v": "int"},
                            [f"{lo} <= v < {hi}"], f"bytes2val(val2bytes(v, '{T}'), '{T}') == v", props=("C18",)))
            p.add(LemmaUnit(f"lemma.C18/enc-dec[{T}]", "pyubx2.ubxhelpers", {"b": ("bytesn", n)},
                            [], f"val2bytes(bytes2val(b, '{T}'), '{T}') == b", props=("C18",)))
            p.add(LemmaUnit(f"lemma.C18/nominal-is-zero[{T}]", "pyubx2.ubxhelpers", {},
                            [], f"val2bytes(nomval('{T}'), '{T}') == bytes({n})", props=("C18",)))
        elif T[0] in ("X", "C") and T != "CH":
            p.add(LemmaUnit(f"lemma.C18/dec-enc[{T}]", "pyubx2.ubxhelpers", {"v": ("bytesn", n)},
                            [], f"bytes2val(val2bytes(v, '{T}'), '{T}') == v and len(val2bytes(v, '{T}')) == {n}",
                            props=("C18",)))
            p.add(LemmaUnit(f"lemma.C18/nominal-is-zero[{T}]", "pyubx2.ubxhelpers", {},
                            [], f"val2bytes(nomval('{T}'), '{T}') == bytes({n})", props=("C18",)))
        elif T[0] == "A":
            p.add(LemmaUnit(f"lemma.C18/enc-dec[{T}]", "pyubx2.ubxhelpers", {"b": ("bytesn", n)},
                            [], f"val2bytes(bytes2val(b, '{T}'), '{T}') == b", props=("C18",)))
            p.add(LemmaUnit(f"lemma.C18/nominal-is-zero[{T}]", "pyubx2.ubxhelpers", {},
                            [], f"val2bytes(nomval('{T}'), '{T}') == bytes({n})", props=("C18",)))
        elif T == "R008":
            p.add(LemmaUnit(f"lemma.C18/dec-enc[{T}]", "pyubx2.ubxhelpers", {"v": "float"},
                            [], f"bytes2val(val2bytes(v, '{T}'), '{T}') == v", props=("C18",)))
    p.func(H + "calc_checksum")
    p.func(H + "isvalid_checksum")
    p.func(H + "protocol")
    p.func(H + "get_bits")
    p.func(H + "msgclass2bytes")
    from . import bounded
    p.add(BoundedUnit("bounded.C18/float-codec", bounded.float_codec, (tier, seed), props=("C18",)))
    p.add(BoundedUnit("bounded.C18/itow-utc", bounded.itow_utc, (tier, seed), props=("C18",)))
    if tier == "thorough":
        # the property's own quantifier: all millisecond times of week (604.8 million), split over the cores
        for k in range(32):
            p.add(BoundedUnit(f"bounded.C18/itow-exhaustive[{k + 1}/32]", bounded.itow_exhaustive, (tier, seed, k, 32),
                              props=("C18",)))
    p.add(BoundedUnit("bounded.C18/val2sphp", bounded.val2sphp, (tier, seed), props=("C18",)))
    p.add(BoundedUnit("bounded.C18/att2idx-att2name", bounded.att_names, (tier, seed), props=("C18",)))
    from . import difftest
    p.add(BoundedUnit("engine-guard/difftest", difftest.difftest_unit, (tier, seed), props=("C18",)))
    from . import lemmas_misc as _lm
    u = p.add(CustomUnit("text-codec", _lm.text_codec_unit, (), props=(p.prop,)))
    p.replayers[u.name] = _lm.replay_text_codec
    p.assumptions += ["get_bits is proved for bit fields of 1..8 bytes and masks below 2**64 (its precondition in the "
                      "contract); wider arguments - no caller inside the library - are outside the proof"]
    p.min_obligations = 300
    p.instances = {"type_constants": len(types)}
    p.exhaustive = True
    p.assumptions += ["T-IEEE struct.pack/unpack('<d') are inverse on Python floats (IEEE-754 binary64); "
                      "float32 rounding is outside SMT reach: R004 and scaled values are bounded stand-ins",
                      "datetime/timedelta arithmetic (itow2utc/utc2itow), float arithmetic (val2sphp) and str.split "
                      "(att2idx/att2name) are not modelled: bounded stand-ins, never counted as proved"]
    p.canary("val2bytes-big-endian", "pyubx2.ubxhelpers", 'valb = val.to_bytes(attsiz(att), byteorder="little"',
             'valb = val.to_bytes(attsiz(att), byteorder="big"', FuncUnit(H + "val2bytes", "U004"))
    p.canary("attsiz-wrong-slice", "pyubx2.ubxhelpers", "return int(att[1:4])", "return int(att[1:3])",
             FuncUnit(H + "val2bytes", "U016"))
    p.canary("bytes2val-signed-U", "pyubx2.ubxhelpers",
             'val = int.from_bytes(valb, byteorder="little", signed=atttyp(att) == "I")',
             'val = int.from_bytes(valb, byteorder="little", signed=atttyp(att) == "U")',
             FuncUnit(H + "bytes2val", "I002"))


# ----------------------------------------------------------------------------------------------- reader
W = "pyubx2.socket_wrapper.SocketWrapper."
T_PARSERS = ("T-NMEA / T-RTCM: pynmeagps.NMEAReader.parse and pyrtcm.RTCMReader.parse are deterministic functions of "
             "(bytes, options) that return a value or raise one of their library's four exception classes "
             "(assumed; modelled as uninterpreted functions with congruence)")
T_PARSE_PURE = ("UBXReader.parse is used in the reader proofs through its contract only: raises nothing but "
                "UBXParseError/UBXMessageError/UBXTypeError, modifies nothing => a function of its arguments")
T_STREAM = ("T-IO: a file-like stream behaves like the abstract stream AS (read(k) returns the next min(k, rest) bytes, "
            "readline() returns up to and including the next LF or the rest); io.BytesIO satisfying AS is assumed")
T_LIFT = ("lifting from the step contract to whole iterations: induction over steps; the C07 / C09 trace invariants are "
          "SMT-checked over the proved step clauses, the identification of the abstract transition relation with those "
          "clauses is by construction, not by a second proof")


def _reader_common(p, styles=("file", "socket"), lemmas=()):
    from . import reader_units as ru
    for st in styles:
        u = CustomUnit(f"{R}read/step[{st}]", ru.step_unit, (st,), props=(p.prop,), cost=50)
        p.add(u)
        p.replayers[u.name] = ru.replay_step
    for lm in lemmas:
        p.add(CustomUnit(f"lemma.reader/{lm}", ru.lemma_unit, (lm,), props=(p.prop,), cost=5))
    if "socket" in styles and p.prop in ("C07", "C09"):
        # the socket-style abstract stream stands for SocketWrapper: its clauses are the wrapper's contracts. The claims of
        # C07 and C09 for socket streams rest on exactly those contracts (what a read returns, consumes and keeps), so
        # these two plans discharge them on the real wrapper itself, as C10 does in its own plan. C06 / C11 / C12 keep
        # using them as stated assumptions: those properties can hold on a wrapper that breaks its contract, and a
        # failing wrapper obligation there would be an alarm on code where the property holds.
        for m in ("_recv", "read", "readline"):
            p.func(W + m)
        for m in ("read", "readline"):
            p.add(CustomUnit(f"lemma.{p.prop}/as-socket[{m}]", ru.as_socket_refinement_unit, (m,), props=(p.prop,)))
    # the configuration the step is quantified over is the one the constructor was given (or its documented defaults)
    p.func(R + "__init__")
    # iteration is read() until it reports the end: nothing else stops it, nothing is skipped
    p.func(R + "__next__")
    p.func(R + "__iter__")
    from .units import factory_unit as _fu
    lab = f"{R}__init__[defaults]"
    p.add(CustomUnit(lab, _fu, ("contracts.reader", "_defaults_contract", None, lab), props=(p.prop,)))
    p.trusted_base += [T_PARSERS, T_PARSE_PURE, T_STREAM, T_LIFT,
                       "contracts/reader_spec.py (executable step specification, written from the framing rules); "
                       "cross-checked natively against the real reader as a bounded stand-in"]
    p.assumptions += [T_PARSERS, T_STREAM]


def _step_canary(p, name, old, new, style="file", module="pyubx2.ubxreader"):
    from . import reader_units as ru
    p.canary(name, module, old, new, CustomUnit("x", ru.step_unit, (style,), cost=50))


def _spec_crosscheck(p, tier, seed):
    from . import bounded
    p.add(BoundedUnit("bounded.reader/spec-step-vs-real-reader", bounded.spec_vs_reader, (tier, seed), props=(p.prop,)))


def plan_C07(p, tier, seed):
    from . import reader_units as ru
    p.explanation = (
        "One iteration of the loop of UBXReader.read (the step) is executed symbolically from an arbitrary stream "
        "position over the abstract stream (any contents, any length) for every reader configuration, and proved "
        "(a) directly: a delivered raw item is a slice data[s:pos'] with pos <= s starting with a preamble byte; "
        "(None, None) only when pos' == n; every non-terminal step consumes >= 1 byte; (b) equal to the executable "
        "step specification. _read_bytes / _read_line are verified against functional contracts. The whole-iteration "
        "claim follows by the SMT-checked trace invariant (items disjoint and increasing).")
    # "every byte stream whatsoever" includes sockets: socket-style step and its lemmas, and - as in C09 - the contracts of
    # the real SocketWrapper that the socket-style abstract stream stands for (a wrapper that drops, repeats or withholds
    # bytes breaks "non-overlapping slices in input order" / "nothing is left unread" for socket streams)
    _reader_common(p, lemmas=("basic[file]", "eof_at_end[file]", "basic[socket]", "eof_at_end[socket]"))
    p.func(R + "_read_bytes")
    p.func(R + "_read_line")
    p.add(CustomUnit("lemma.lifting/C07", ru.lifting_unit, ("C07",), props=("C07",)))
    _spec_crosscheck(p, tier, seed)
    p.min_obligations = 1000
    _step_canary(p, "parse_ubx-short-by-one", "self._read_bytes(leni + 2)", "self._read_bytes(leni + 1)")
    _step_canary(p, "rtcm-size-shift", "size = hdr3[0] | (hdr[1] << 8)", "size = 1 + (hdr3[0] | (hdr[1] << 8))")
    p.canary("read_bytes-eof-on-zero", "pyubx2.ubxreader", "if len(data) == 0 and size > 0:  # EOF", "if len(data) == 0:  # EOF",
             FuncUnit(R + "_read_bytes"))


def plan_C06(p, tier, seed):
    p.explanation = (
        "Step contract (real loop body == executable step specification, file and socket style) plus one lemma per "
        "segment kind over the specification: from the first byte of a well-formed UBX / NMEA / RTCM3 segment "
        "(or a noise byte) the step consumes exactly that segment; it is delivered as (raw == the segment, parsed == "
        "the protocol parser's result under the reader's options) iff the parser accepts it and the filter passes it; "
        "a segment its parser rejects is consumed and nothing after it is disturbed. Whole-stream claim: induction over "
        "segments (position is always a segment start).")
    _reader_common(p, lemmas=("segment[noise]", "segment[ubx]", "segment[nmea]", "segment[rtcm]", "basic[file]",
                               "eof_at_end[file]"))
    _spec_crosscheck(p, tier, seed)
    p.min_obligations = 2000
    _step_canary(p, "parse_ubx-short-by-one", "self._read_bytes(leni + 2)", "self._read_bytes(leni + 1)")
    _step_canary(p, "rtcm-size-shift", "size = hdr3[0] | (hdr[1] << 8)", "size = 1 + (hdr3[0] | (hdr[1] << 8))")
    _step_canary(p, "nmea-raw-drops-header", "raw_data = hdr + byten\n", "raw_data = byten\n")


def plan_C09(p, tier, seed):
    from . import reader_units as ru
    p.explanation = (
        "Two-run lemma over the step specification: S[:k] and S from the same position p <= k give the identical step, "
        "or the cut stream ends there (EOF, or a truncated frame dropped with the stream exhausted); an item from the "
        "cut stream is always the same complete frame; a frame lying wholly before the cut is handled identically. "
        "The real loop body is proved equal to the specification (step contract). Joint trace invariant SMT-checked.")
    # "every stream" includes a socket whose peer stops after k bytes: the socket-style step is proved too, the style
    # lemma reduces a socket carrying S[:k] to the file-like stream S[:k], and the lemma's premises - the contracts of
    # SocketWrapper.read / readline / _recv and the refinement of the abstract socket-style stream - are discharged in
    # this plan as well (a change to the wrapper that lets a short read return or keep bytes fails here, not only in C10)
    _reader_common(p, lemmas=("cut", "style", "basic[file]", "eof_at_end[file]", "basic[socket]", "eof_at_end[socket]"))
    p.func(R + "_read_bytes")
    p.func(R + "_read_line")
    p.add(CustomUnit("lemma.lifting/C09", ru.lifting_unit, ("C09",), props=("C09",)))
    _spec_crosscheck(p, tier, seed)
    p.min_obligations = 1500
    p.canary("read_bytes-returns-partial", "pyubx2.ubxreader", "if 0 < len(data) < size:  # truncated stream",
             "if False:  # truncated stream", FuncUnit(R + "_read_bytes"))
    _step_canary(p, "ubx-frame-without-checksum-bytes", "self._read_bytes(leni + 2)", "self._read_bytes(leni)")


def plan_C10(p, tier, seed):
    from . import reader_units as ru
    p.explanation = (
        "SocketWrapper._recv / read / readline are verified against functional contracts over a ghost socket whose "
        "recv hands out the next 1..bufsize bytes of the peer's byte sequence in order (any chunking, any bufsize >= 1) "
        "and fails (close, timeout, OSError) only after the last byte: read(n) returns exactly n bytes or nothing, "
        "readline returns up to and including the next LF; loops by invariant, termination by decreases. The socket-"
        "style abstract stream of the reader proofs satisfies the same clauses (refinement lemma). Two-run lemma over "
        "the step specification: socket style and file style give the same step until the first unsatisfiable read, "
        "where both stop without an item. UBXReader.__init__ wraps sockets.")
    _reader_common(p, lemmas=("style", "basic[socket]", "eof_at_end[socket]"))
    for m in ("_recv", "read", "readline"):
        p.func(W + m)
    p.add(CustomUnit("lemma.C10/as-socket[read]", ru.as_socket_refinement_unit, ("read",), props=("C10",)))
    p.add(CustomUnit("lemma.C10/as-socket[readline]", ru.as_socket_refinement_unit, ("readline",), props=("C10",)))
    from . import bounded
    p.add(BoundedUnit("bounded.C10/real-tcp-loopback", bounded.tcp_loopback, (tier, seed), props=("C10",)))
    p.min_obligations = 2500
    p.assumptions += ["T-TCP: in-order, loss-free delivery; recv fails only after the last byte (the property's own "
                      "quantifier); real concurrent sender threads are exercised only by the bounded loopback stand-in"]
    p.canary("socket-read-skips-byte", "pyubx2.socket_wrapper", "self._buffer = self._buffer[num:]",
             "self._buffer = self._buffer[num + 1 :]", FuncUnit(W + "read"))
    p.canary("recv-drops-data", "pyubx2.socket_wrapper", "            self._buffer += data\n", "            pass\n",
             FuncUnit(W + "_recv"))
    p.canary("readline-stops-late", "pyubx2.socket_wrapper", 'if line[-1:] == b"\\n":  # LF', 'if line[-2:-1] == b"\\n":  # LF',
             FuncUnit(W + "readline"))


def plan_C11(p, tier, seed):
    p.explanation = (
        "Two-run lemmas over the step specification: protfilter=F versus all protocols (same bytes consumed by every "
        "step; an item of the unfiltered run is the same item in the filtered run iff its protocol - classified by the "
        "contract of ubxhelpers.protocol - is in F, else it is skipped; nothing new appears), and parsing=False versus "
        "True (same framing, same raw, parsed None, unless a parser rejects the frame). Real loop body == specification.")
    _reader_common(p, lemmas=("filter", "parsing", "basic[file]", "basic[socket]"))
    p.func(H + "protocol")
    _spec_crosscheck(p, tier, seed)
    p.min_obligations = 2500
    _step_canary(p, "ubx-filter-uses-nmea-bit", "if self._protfilter & UBX_PROTOCOL:\n                        parsing = False",
                 "if self._protfilter & NMEA_PROTOCOL:\n                        parsing = False")
    _step_canary(p, "filtered-frame-not-consumed", "        byten = self._read_bytes(leni + 2)\n",
                 "        byten = self._read_bytes(leni + 2 if self._protfilter & UBX_PROTOCOL else 2)\n")


def plan_C12(p, tier, seed):
    p.explanation = (
        "The step specification does not depend on quitonerror; the real loop body is proved equal to it for every "
        "quitonerror in {0,1,2} (same kind, position, raw, parsed), and the reporting clauses are proved on the real "
        "body: a rejected frame under ERR_LOG produces exactly one report (error handler if present, else logger.error) "
        "carrying the rejecting exception, nothing is reported for delivered / skipped frames or under ERR_IGNORE, and "
        "under ERR_RAISE read() raises exactly that exception.")
    _reader_common(p, lemmas=("basic[file]",))
    _spec_crosscheck(p, tier, seed)
    p.min_obligations = 2000
    _step_canary(p, "log-also-when-ignoring", "                if self._quitonerror:\n                    self._do_error(err)",
                 "                if self._quitonerror == ERR_RAISE:\n                    self._do_error(err)")
    _step_canary(p, "handler-called-twice", "                self._errorhandler(err)\n",
                 "                self._errorhandler(err)\n                self._errorhandler(err)\n")


# ----------------------------------------------------------------------------------------------- instances
def _instance_units(p, select, modes=(0, 1, 2)):
    """one unit per (mode, class/ID) of the working tree's message-ID table + the residual unknown-ID case"""
    from . import instance as inst
    keys = inst.message_keys()
    n = 0
    for m in modes:
        for k in keys:
            u = CustomUnit(f"init[{inst.MODES[m]}:{k.hex()}]", inst.init_unit, (m, k), props=(p.prop,), cost=2)
            u.select = select
            u.cacheable = True
            p.add(u)
            p.replayers[u.name] = inst.replay_instance
            n += 1
        for resid, rk in (("unknown-id", None), ("odd-id", "odd")):
            u = CustomUnit(f"init[{inst.MODES[m]}:{resid}]", inst.init_unit, (m, rk), props=(p.prop,), cost=60)
            u.select = select
            u.cacheable = True
            p.add(u)
            p.replayers[u.name] = inst.replay_instance
            n += 1
    p.assumptions += [A_ODDID]
    p.instances = {"message_keys": len(keys), "modes": len(modes), "instance_units": n,
                   "variants_per_instance": "payload any length x bitfield view {parsed, raw}; no payload; "
                                            "conforming payload x bitfield view"}
    p.exhaustive = True
    return n


A_ODDID = ("A-ODDID constructor with class / ID byte strings other than one byte each: only the shapes UBXReader.parse "
           "can pass (both empty, class only) are verified; other splits, which only direct callers can produce, are not")
T_INSTANCE = ("instance mode: the definition tables are enumerated exhaustively from the working tree (finite); payload "
              "bytes, payload length and group repeat counts stay symbolic; symbolic group loops are cut by the schematic "
              "invariant offset == offset_entry + i*G, proved preserved per instance")


def _init_canary(p, name, module, old, new, mode, keyhex):
    from . import instance as inst
    u = CustomUnit("x", inst.init_unit, (mode, bytes.fromhex(keyhex)), cost=2)
    p.canary(name, module, old, new, u)


UBX_ERRS = ("UBXParseError", "UBXMessageError", "UBXTypeError")


def plan_C01(p, tier, seed):
    p.explanation = (
        "parse (M) returns the constructor's result for (message[2:3], message[3:4], mode, payload slice); the constructor "
        "contract (class/id/mode/payload stored verbatim, length == u16le(len(payload)), checksum == Fletcher-8 of "
        "class..payload, raises only UBX* errors) is proved in instance mode for every class/ID of the message table x mode x "
        "bitfield view x any payload of any length, plus the residual symbolic class/ID outside the table (together all "
        "65536 pairs); serialize (M) concatenates the stored fields; the round trip is then an SMT lemma over those "
        "contracts. repr: __repr__ is proved to emit the constructor expression over the stored class, id, mode, payload; "
        "eval(repr(bytes)) == bytes is an assumed built-in law.")
    p.func(R + "parse")
    p.func(M + "serialize")
    p.func(M + "_do_len_checksum")
    p.func(M + "__repr__")
    for g in ("msg_cls", "msg_id", "length", "payload", "msgmode"):
        p.func(M + g)
    p.func(H + "calc_checksum")
    _instance_units(p, r"/(ensures:(class|id|mode|payload-kept|payload-none|immutable|length-width|length-value|checksum)"
                       r"|raises:|C08:inspect:(serialize|__repr__|length|payload))")
    p.add(LemmaUnit(
        "lemma.C01/parse-serialize-roundtrip", "pyubx2.ubxreader",
        {"f": "bytes", "msgmode": "int", "validate": "int", "parsebitfield": "boolint"},
        ["wf_frame(f)", "0 <= msgmode <= 3"],
        [("serialize", "UBXReader.parse(f, msgmode, validate, parsebitfield).serialize() == f"),
         ], props=("C01",), allow=UBX_ERRS))
    p.add(LemmaUnit(
        "lemma.C01/parsed-fields-are-the-frame-fields", "pyubx2.ubxreader",
        {"f": "bytes", "msgmode": "int", "validate": "int", "parsebitfield": "boolint"},
        ["wf_frame(f)", "0 <= msgmode <= 3"],
        [("msg_cls", "UBXReader.parse(f, msgmode, validate, parsebitfield).msg_cls == f[2:3]"),
         ("msg_id", "UBXReader.parse(f, msgmode, validate, parsebitfield).msg_id == f[3:4]"),
         ("length", "UBXReader.parse(f, msgmode, validate, parsebitfield).length == len(f) - 8"),
         ("payload", "payload_bytes(UBXReader.parse(f, msgmode, validate, parsebitfield).payload) == f[6:len(f) - 2]"),
         ], props=("C01",), allow=UBX_ERRS))
    p.add(LemmaUnit(
        "lemma.C01/repr-roundtrip", "pyubx2.ubxmessage",
        {"cls": ("bytesn", 1), "mid": ("bytesn", 1), "mode": "int", "pl": "bytes"},
        ["0 <= mode <= 2"],
        [("same-frame", "same_frame(UBXMessage(cls, mid, mode, payload=pl), UBXMessage(cls, mid, mode, payload=pl, parsebitfield=0))"),
         ], props=("C01",), allow=UBX_ERRS))
    p.min_obligations = 5000
    p.trusted_base += [T_INSTANCE, "eval(repr(b)) == b for bytes and ints (CPython built-in law, assumed)"]
    p.canary("serialize-drops-length", "pyubx2.ubxmessage", "            + self._length\n", "", FuncUnit(M + "serialize"))
    p.canary("length-off-by-one", "pyubx2.ubxmessage", "self._length = val2bytes(len(payload), U2)",
             "self._length = val2bytes(len(payload) + 1, U2)", FuncUnit(M + "_do_len_checksum"))
    _init_canary(p, "ctor-truncates-payload", "pyubx2.ubxmessage", 'self._payload = kwargs.get("payload", b"")',
                 'self._payload = kwargs.get("payload", b"")[:-1]', 0, "0122")


def plan_C02(p, tier, seed):
    p.explanation = (
        "Instance mode: for every definition reachable for a class/ID x mode (variants selected by the real selectors on "
        "the symbolic payload) and a payload laid out according to it (conformance predicate from the independent layout "
        "oracle: size attributes equal the counts, total length), the real walker is executed and every attribute store is "
        "compared with the oracle: value == little-endian / two's-complement / IEEE (uninterpreted) / scaled (uninterpreted "
        "float plumbing) / bit-sliced decoding of the bytes at the oracle's offset; the set of exposed names and their order "
        "equal the oracle's; repeated attributes are checked on an arbitrary iteration (index i+1, offset by the proved "
        "schematic invariant), nested groups included; both bitfield views; conforming payloads must parse.")
    _instance_units(p, r"/(C02:|.*_set_attribute_group/loop1:)")
    from contracts.helpers import type_constants
    for T in type_constants():
        p.func(H + "bytes2val", T)
    p.min_obligations = 10000
    p.trusted_base += [T_INSTANCE, "contracts/oracle.py (independent layout oracle, from README Extensibility rules)",
                       "floating point scaling and rounding are uninterpreted (fmul, round_n): the proof covers routing of "
                       "bytes, type, scale constant and the rounding call, not floating-point values"]
    _init_canary(p, "group-index-off-by-one", "pyubx2.ubxmessage", "index[-1] = i + 1", "index[-1] = i", 0, "0135")
    _init_canary(p, "bits-offset-not-advanced", "pyubx2.ubxmessage", "return (bitfield, bfoffset + atts)",
                 "return (bitfield, bfoffset)", 0, "0107")
    p.canary("bytes2val-signedness", "pyubx2.ubxhelpers",
             'val = int.from_bytes(valb, byteorder="little", signed=atttyp(att) == "I")',
             'val = int.from_bytes(valb, byteorder="little", signed=atttyp(att) == "U")', FuncUnit(H + "bytes2val", "I004"))
    _init_canary(p, "scaled-not-rounded", "pyubx2.ubxmessage", "val = round(bytes2val(valb, adef) * ares, SCALROUND)",
                 "val = bytes2val(valb, adef) * ares", 0, "0107")


def plan_C16(p, tier, seed):
    from . import ground, bounded
    p.explanation = (
        "Closed obligations over the working tree's tables, enumerated exhaustively: WF(def) - the documented grammar "
        "(valid types, flags fit their bitfield, group sizes named by an earlier integer attribute or flag, one "
        "variable-by-size group, last, names unique in both bitfield views, no collision with UBXMessage's own "
        "attributes, injective repeat naming) - for every GET/SET/POLL definition; reachability of every definition; "
        "unique message names; configuration-database rules (valid type, width == size code, unique IDs). Instance mode: "
        "a payload laid out according to each definition parses, and its exposed names are exactly the definition's "
        "(no two fields under one name). Native ground run: a nominal instance of every (message, mode) is built and parsed.")
    p.add(GroundUnit("ground.C16/WF", ground.wf_definitions, (), props=("C16",)))
    p.add(GroundUnit("ground.C16/reachability", ground.reachability, (), props=("C16",)))
    p.add(GroundUnit("ground.C16/configdb", ground.configdb_rules, (), props=("C16",)))
    p.add(GroundUnit("ground.C16/nominal", ground.nominal_instances, (), props=("C16",)))
    _instance_units(p, r"/C02:(conforming-payload-parses|names|names-repeated|members:|family-defined:)")
    p.add(BoundedUnit("bounded.C16/oracle-vs-parser", bounded.oracle_vs_parser, (tier, seed), props=("C16",)))
    p.min_obligations = 10000
    p.trusted_base += [T_INSTANCE, "contracts/oracle.py (grammar rules restated from README 'Extensibility')"]
    for inj in ("length-field", "dup-flag", "late-count"):
        u = GroundUnit(f"canary:table-{inj}", ground.wf_definitions, (inj,))
        u.canary = f"table-{inj}"
        p.units.append(u)


def plan_C13(p, tier, seed):
    from .units import factory_unit
    p.explanation = (
        "__setattr__ and __delattr__ are verified against contracts: once _immutable is set they raise UBXMessageError "
        "for every attribute name (symbolic name) and leave the stored frame fields unchanged; the constructor "
        "contract's `immutable` clause is proved per instance. Side effects: every function under contract carries a "
        "modifies clause without the ghost locations `io` (stdout/stderr: print is charged to it) and `tables` (any "
        "mutating operation on an object the code did not allocate, i.e. the shared definition tables); the frame "
        "obligation is proved for every instance of the constructor (all class/IDs x modes) and for the helper, reader "
        "and serialisation functions. History/thread independence is a corollary of these frames (results are functions "
        "of the arguments and read-only tables); interleavings themselves are not explored.")
    for meth in ("__setattr__", "__delattr__"):
        p.func(M + meth)
        p.add(CustomUnit(f"{M}{meth}[immutable, any name]", factory_unit,
                         ("contracts.message", "immutable_any_name", meth, f"{M}{meth}[immutable, any name]"), props=("C13",)))
    _instance_units(p, r"/(modifies|ensures:immutable|.*loop1:frame)")
    # the keyword route builds messages through other branches of the same walker: same frame and immutability clauses
    _kw_units(p, r"/(modifies|ensures:immutable|.*:frame)")
    for f in ("serialize", "__repr__", "_do_len_checksum", "length", "payload", "msgmode", "msg_cls", "msg_id"):
        p.func(M + f)
    for f in ("calc_checksum", "isvalid_checksum", "getinputmode", "protocol", "get_bits", "msgclass2bytes"):
        p.func(H + f)
    p.func(R + "parse")
    from . import configdb, lemmas_misc
    from .units import factory_unit as _fu
    lemmas_misc.msgstr_units(p, select=r"/modifies")
    db, _ = configdb.cfgdb()
    for lo in range(0, len(db), 60):
        u = p.add(CustomUnit(f"cfg-lookups[{lo}:{min(lo + 60, len(db))}]", configdb.lookup_chunk_unit, (lo, min(lo + 60, len(db))),
                             props=("C13",), cost=10))
        u.select = r"/modifies"
    u = p.add(CustomUnit("cfg-lookups[residual]", configdb.lookup_residual_unit, (), props=("C13",), cost=20))
    u.select = r"/modifies"
    p.replayers[u.name] = configdb.replay_tables_untouched
    for fn in ("config_set", "config_del", "config_poll"):
        lab = f"{M}{fn}[id keys]"
        u = p.add(CustomUnit(lab, _fu, ("contracts.message", "c14_config", (fn, "id"), lab), props=("C13",), cost=40))
        u.select = r"/modifies"
    p.min_obligations = 4000
    p.trusted_base += [T_INSTANCE, "frames: built-ins are modelled as pure except print (ghost io) and mutators on "
                                   "foreign objects (ghost tables); logging writes to the ghost error log only"]
    p.assumptions += ["thread interleavings are not explored: independence is argued from the proved frames "
                      "(no shared mutable state is written); CPython-level atomicity is outside the contracts"]
    p.canary("setattr-ignores-flag", "pyubx2.ubxmessage", "        if self._immutable:\n            raise UBXMessageError(\n                f\"Object is immutable. Updates",
             "        if False:\n            raise UBXMessageError(\n                f\"Object is immutable. Updates", FuncUnit(M + "__setattr__"))
    _init_canary(p, "get_dict-prints", "pyubx2.ubxmessage", "            msg = self._ubxClass + self._ubxID\n",
                 "            msg = self._ubxClass + self._ubxID\n            print(msg)\n", 0, "0122")
    _init_canary(p, "selector-mutates-table", "pyubx2.ubxvariants", '    if ver == b"\\x00":\n        return UBX_PAYLOADS_GET["NAV-RELPOSNED-V0"]',
                 '    if ver == b"\\x00":\n        UBX_PAYLOADS_GET["NAV-RELPOSNED-V0"]["seen"] = "U001"\n        return UBX_PAYLOADS_GET["NAV-RELPOSNED-V0"]', 0, "013c")


def plan_C08(p, tier, seed):
    from . import reader_units as ru, bounded
    p.explanation = (
        "Exception side: parse (M) raises only UBXParseError/UBXMessageError/UBXTypeError for every byte string; the "
        "constructor raises only UBXMessageError/UBXTypeError for every class/ID x mode x bitfield view x payload of any "
        "length (instance mode, residual unknown IDs included), and identity/length/payload/msgmode/serialize/__repr__ "
        "raise nothing on any message it returns; the reader step (real loop body, every configuration, file and socket "
        "style) raises only under ERR_RAISE and then only protocol errors. Termination: every non-terminal reader step "
        "consumes >= 1 byte (decreases n - pos); SocketWrapper.read / readline, _set_attribute_cfgval and get_bits carry "
        "proved decreases clauses; all other loops range over finite table entries or size fields. __str__ (iterates "
        "__dict__) is a bounded stand-in.")
    p.func(R + "parse")
    _reader_common(p, lemmas=("basic[file]", "basic[socket]"))
    p.func(R + "_read_bytes")
    p.func(R + "_read_line")
    for m in ("read", "readline"):
        p.func(W + m)
    p.func(H + "get_bits")
    # the inspection of a returned message goes through these getters' contracts in the instance units: their bodies are
    # verified here (for every message object, with and without payload)
    for f in ("serialize", "__repr__", "length", "payload", "msgmode", "msg_cls", "msg_id"):
        p.func(M + f)
    _instance_units(p, r"/(raises:|C08:|.*loop1:decreases)")
    p.add(BoundedUnit("bounded.C08/str-of-messages", bounded.str_of_messages, (tier, seed), props=("C08",)))
    p.add(BoundedUnit("bounded.C08/dependency-parsers", bounded.dependency_parsers, (tier, seed), props=("C08",)))
    from . import ground as _g
    p.add(GroundUnit("ground.C08/translation-complete", _g.translation_complete, (), props=("C08",)))
    p.min_obligations = 8000
    p.trusted_base += [T_INSTANCE]
    _init_canary(p, "struct-error-not-translated", "pyubx2.ubxmessage", "            struct.error,\n", "", 0, "0b02")
    p.canary("parse-error-message-overflows", "pyubx2.ubxreader", 'f" - should be {max(lenm - 8, 0)}"',
             'f" - should be {val2bytes(lenm, U2)}"', FuncUnit(R + "parse"))


# ----------------------------------------------------------------------------------------------- keyword mode
def _kw_units(p, select):
    from . import instance as inst
    keys = inst.message_keys()
    n = 0
    for m in (0, 1, 2):
        for k in keys:
            u = CustomUnit(f"kwinit[{inst.MODES[m]}:{k.hex()}]", inst.kwargs_unit, (m, k), props=(p.prop,), cost=1)
            u.select = select
            u.cacheable = True
            p.add(u)
            p.replayers[u.name] = inst.replay_kwinit
            n += 1
    return n


T_KW = ("keyword mode: the keyword map is a ghost map name -> (present, value); every attribute of the selected definition "
        "may be supplied with a symbolic in-range value of its kind or omitted (merged as `present ? value : nominal`); "
        "repeated attributes are indexed families; counted groups take the supplied size attribute as their count and are "
        "cut per arbitrary repeat (the repeat appends exactly G bytes that decode to the keyword values of index i+1). "
        "Narrowings of this mode: keyword builds are explored with parsebitfield=True only (flags supplied one by one, "
        "never a raw bitfield value); by-name / by-integer addressing is explored without payload only; the per-field "
        "contract of _set_attribute_single is proved for a top-level, non-_HP attribute name")


def plan_C03(p, tier, seed):
    from . import bounded, lemmas_misc
    p.explanation = (
        "Instance mode, keyword route: for every class/ID x mode (variants chosen by the real selectors from the symbolic "
        "discriminators) the real walker builds the payload from a symbolic keyword map; proved: construction succeeds for "
        "in-range values (or the payload exceeds 65535 bytes), the payload has the definition's length (group counts == the "
        "supplied size attributes) and every field of the built payload, decoded raw by the independent layout oracle, equals "
        "the supplied value (nominal zero/blank when omitted); bitfields equal the sum of the supplied flags shifted to their "
        "offsets. Composition with C02 (parse decodes each field at the oracle's offset) and the C18 inverse laws gives 'parsing "
        "returns the supplied values'; the mixed-radix lemma per flag layout closes the bitfield case. Scaled fields: the "
        "float arithmetic int(round(raw*scale,12)/scale) == raw is outside SMT reach - native enumeration per (type, scale) "
        "pair, exhaustive for 1- and 2-byte types, bounded for wider ones.")
    n = _kw_units(p, r"/(C03:|C02:variant|.*loop1\[kw\])")
    from contracts.helpers import type_constants, INT_LETTERS
    for T in type_constants():
        p.func(H + "val2bytes", T)
        p.func(H + "nomval", T)
    p.add(CustomUnit("lemma.mixed-radix", lemmas_misc.mixed_radix_unit, (), props=("C03",), cost=20))
    p.add(BoundedUnit("bounded.C03/scaled-roundtrip", bounded.scaled_roundtrip, (tier, seed), props=("C03",)))
    p.add(BoundedUnit("bounded.C03/keyword-build-parse", bounded.kw_end_to_end, (tier, seed), props=("C03",)))
    p.instances = {"keyword_instance_units": n}
    p.exhaustive = True
    from . import lemmas_misc as _lm
    u = p.add(CustomUnit("text-codec", _lm.text_codec_unit, (), props=(p.prop,)))
    p.replayers[u.name] = _lm.replay_text_codec
    p.min_obligations = 4000
    p.trusted_base += [T_INSTANCE, T_KW, "contracts/oracle.py"]
    from . import instance as inst
    p.canary("payload-overwritten", "pyubx2.ubxmessage", "            self._payload += valb\n", "            self._payload = valb\n",
             CustomUnit("x", inst.kwargs_unit, (0, bytes.fromhex("0122"))))
    p.canary("nomval-one", "pyubx2.ubxhelpers", '    elif atttyp(att) in ("E", "I", "L", "U"):\n        val = 0',
             '    elif atttyp(att) in ("E", "I", "L", "U"):\n        val = 1', FuncUnit(H + "nomval", "U004"))
    p.canary("flag-shifted-one-too-far", "pyubx2.ubxmessage", "bitfield = bitfield | (val << bfoffset)",
             "bitfield = bitfield | (val << (bfoffset + 1))",
             CustomUnit("x", inst.kwargs_unit, (0, bytes.fromhex("0103"))))
    p.canary("group-count-ignored", "pyubx2.ubxmessage", "            for i in range(gsiz):\n                index[-1] = i + 1",
             "            for i in range(gsiz + 1):\n                index[-1] = i + 1", CustomUnit("x", inst.kwargs_unit, (0, bytes.fromhex("0135"))))


def plan_C04(p, tier, seed):
    from . import lemmas_misc, ground
    p.explanation = (
        "_do_len_checksum and serialize are verified against contracts (length == u16le(len(payload)), checksum == Fletcher-8 "
        "of class..payload, frame == b5 62 + class + id + length + payload + checksum); the constructor contract carries these "
        "clauses and is proved for every class/ID x mode on both construction routes (payload bytes: instance mode; keywords: "
        "keyword mode), so the clause does not depend on how the payload was produced. Lemma: the serialization of any object "
        "satisfying the constructor's post is a well-formed frame (wf_frame, independent definition) and parse in the same mode "
        "raises no UBXParseError for it (parse contract). Addressing forms: msgstr2bytes over every entry of the tables "
        "(ground, exhaustive), msgclass2bytes (M) for all 0..255 pairs; config_* helpers: see C14.")
    p.func(M + "_do_len_checksum")
    p.func(M + "serialize")
    p.func(H + "calc_checksum")
    p.func(H + "msgclass2bytes")
    p.func(R + "parse")
    _instance_units(p, r"/ensures:(class|id|mode|length-width|length-value|checksum|class-from-name|id-from-name|class-from-int|id-from-int)")
    _kw_units(p, r"/ensures:(class|id|mode|length-width|length-value|checksum)")
    p.add(LemmaUnit(
        "lemma.C04/serialized-message-is-well-formed", "pyubx2.ubxmessage",
        {"cls": ("bytesn", 1), "mid": ("bytesn", 1), "mode": "int", "pl": "bytes"},
        ["0 <= mode <= 2", "len(pl) <= 65535"],
        [("wf", "wf_frame(UBXMessage(cls, mid, mode, payload=pl).serialize())"),
         ("wf-empty", "wf_frame(UBXMessage(cls, mid, mode).serialize())")],
        props=("C04",), allow=UBX_ERRS))
    p.add(LemmaUnit(
        "lemma.C04/parse-accepts-what-serialize-emits", "pyubx2.ubxreader",
        {"f": "bytes", "msgmode": "int", "parsebitfield": "boolint"},
        ["wf_frame(f)", "0 <= msgmode <= 2"],
        [("no-parse-error", "UBXReader.parse(f, msgmode, 1, parsebitfield) is not None")],
        props=("C04",), allow=("UBXMessageError", "UBXTypeError")))
    p.add(GroundUnit("ground.C04/addressing-forms", lemmas_misc.addressing_forms, (), props=("C04",)))
    lemmas_misc.msgstr_units(p)
    p.min_obligations = 8000
    p.trusted_base += [T_INSTANCE, T_KW]
    p.canary("checksum-b-plus-char", "pyubx2.ubxhelpers", "check_b += check_a", "check_b += char", FuncUnit(H + "calc_checksum"))
    p.canary("checksum-skips-length", "pyubx2.ubxmessage", "self._ubxClass + self._ubxID + self._length + payload",
             "self._ubxClass + self._ubxID + payload", FuncUnit(M + "_do_len_checksum"))
    p.canary("serialize-swaps-class-id", "pyubx2.ubxmessage", "            + self._ubxClass\n            + self._ubxID\n",
             "            + self._ubxID\n            + self._ubxClass\n", FuncUnit(M + "serialize"))


def plan_C17(p, tier, seed):
    from . import lemmas_misc
    p.explanation = (
        "getinputmode is verified against the documented heuristic (contract); parse (M) substitutes exactly "
        "getinputmode(message) for SETPOLL before construction (clause `mode`), so parsing with SETPOLL equals parsing with "
        "that mode. Per SET and per POLL definition of the working tree: linear-arithmetic lemma over the conforming payload "
        "lengths of the definition (static size + count * group size, counts ranging over what the size attribute can express) "
        "that the heuristic returns the definition's own mode.")
    p.func(H + "getinputmode")
    p.func(R + "parse")
    u = p.add(CustomUnit("lemma.C17/per-definition", lemmas_misc.setpoll_unit, (), props=("C17",), cost=5))
    p.replayers[u.name] = lemmas_misc.replay_setpoll
    p.exhaustive = True
    p.min_obligations = 300
    p.canary("inputmode-length-9", "pyubx2.ubxhelpers", "        len(data) == 8\n", "        len(data) <= 9\n", FuncUnit(H + "getinputmode"))
    p.canary("parse-ignores-setpoll", "pyubx2.ubxreader", "            msgmode = getinputmode(message)  # returns SET or POLL",
             "            msgmode = SET", FuncUnit(R + "parse"))


def plan_C15(p, tier, seed):
    from .units import factory_unit
    from . import instance as inst, bounded
    from contracts.helpers import type_constants, ANY_KINDS, INT_LETTERS
    p.explanation = (
        "Per-field claim, mode M, for every attribute type constant and every Python kind of value (int of any magnitude, "
        "float, str, bytes of any length, lists shorter/equal/longer than the field, None, tuple): val2bytes either raises "
        "one of the exceptions the constructor translates or returns exactly size(T) bytes that decode to the value; the "
        "keyword branch of _set_attribute_single appends exactly those bytes and leaves the earlier payload untouched (it "
        "uses val2bytes by that contract); _set_attribute_bits either refuses or the value fits its slot and only that slot "
        "changes. Per definition (keyword instance mode): the built payload has exactly the definition's length, and "
        "discriminator keywords of arbitrary kind are refused with UBXMessageError/UBXTypeError only (the constructor's "
        "handlers, including their own message formatting, are executed).")
    types = type_constants()
    for T in types:
        for kind in ANY_KINDS:
            lab = f"val2bytes[{T} any:{kind}]"
            u = p.add(CustomUnit(lab, factory_unit, ("contracts.helpers", "c15_val2bytes", (T, kind), lab), props=("C15",),
                                 cost=30 if T[0] == "A" and kind.startswith("list") else 1))
            p.unit_contracts_factory = getattr(p, "unit_contracts_factory", {})
        if T == "CH":
            continue
        for kind in ("int", "float", "str", "bytes", "none"):
            for scaled in ((False, True) if T[0] in INT_LETTERS else (False,)):
                lab = f"_set_attribute_single[kw {T} any:{kind}{' scaled' if scaled else ''}]"
                p.add(CustomUnit(lab, factory_unit, ("contracts.message", "c15_set_attribute_single", (T, kind, scaled), lab),
                                 props=("C15",)))
    for arg in ((0, 1), (5, 3), (7, 1), (13, 5), (0, 8)):
        for kind in ("int", "float", "str", "bytes", "none"):
            lab = f"_set_attribute_bits[kw offset={arg[0]} width={arg[1]} any:{kind}]"
            u = p.add(CustomUnit(lab, factory_unit, ("contracts.message", "c15_set_attribute_bits", arg + (kind,), lab),
                                 props=("C15",)))
    _kw_units(p, r"/(C03:length|raises:|C03:in-range-values-accepted)")
    vmod = extract.load_module("pyubx2.ubxvariants")[0]
    for mode, tab in vmod.VARIANTS.items():
        for key in tab:
            u = CustomUnit(f"kwinit-anydisc[{inst.MODES[mode]}:{key.hex()}]", inst.kwargs_unit, (mode, key, "anydisc"),
                           props=("C15",), cost=3)
            u.select = r"/(C15:|raises:)"
            p.add(u)
    p.add(BoundedUnit("bounded.C15/bad-values-natively", bounded.bad_values, (tier, seed), props=("C15",)))
    from . import ground as _g
    p.add(GroundUnit("ground.C15/translation-complete", _g.translation_complete, (), props=("C15",)))
    p.min_obligations = 3000
    p.trusted_base += [T_INSTANCE, T_KW, "float edge cases (nan / inf) enter through the built-in models of int(float) and "
                                        "struct.pack: nondeterministic ValueError / OverflowError branches (assumed complete)"]
    p.canary("type-gate-removed", "pyubx2.ubxhelpers", "        if not isinstance(val, ATTTYPE[atttyp(att)]):", "        if False:",
             CustomUnit("x", factory_unit, ("contracts.helpers", "c15_val2bytes", ("X004", "int"), "x")))
    p.canary("flag-range-check-removed", "pyubx2.ubxmessage", "            if not 0 <= val < (1 << atts):", "            if False:",
             CustomUnit("x", factory_unit, ("contracts.message", "c15_set_attribute_bits", (5, 3), "x")))
    p.canary("overflow-not-translated", "pyubx2.ubxmessage", "        except (OverflowError,) as err:", "        except (ZeroDivisionError,) as err:",
             CustomUnit("x", inst.kwargs_unit, (1, bytes.fromhex("0272"), "anydisc")))


def plan_C14(p, tier, seed):
    from .units import factory_unit
    from . import configdb, ground, bounded, instance as inst
    p.explanation = (
        "config_set / config_del / config_poll are verified for a *symbolic* item list (symbolic length, item k given by "
        "uninterpreted functions of k; keys as names or as IDs): the item loop is cut by the invariant lis == ENC(items, k), "
        "where ENC is the specified byte layout (for each item, in order, the 32-bit little-endian key ID and - for set - the "
        "value at the width of the key's type), the type of an item being decided by a finite case split over the database's "
        "types and, for unknown IDs, the size codes; post: payload == 4-byte header + ENC(items, len(items)), class/ID/mode of "
        "the CFG-VAL* message; more than 64 items is refused. cfgkey2name / cfgname2key are verified against their contracts "
        "once per database entry (1242 keys) plus the symbolic unknown-ID / unknown-name cases. Ground: every key's declared "
        "width equals its ID's size code, IDs unique, name<->ID lookups agree. Parsing: the key/value loop of "
        "_set_attribute_cfgval is verified inside the CFG-VALGET / CFG-VALSET constructor instances: invariant, termination, "
        "per-item clauses on an arbitrary iteration (key word at the offset, name from the lookup, value by the key's type) and "
        "contiguity as loop step / exit clauses - the first item starts after the 4-byte header, an item iteration advances the "
        "offset by 4 + the width the key ID's size code prescribes (widths restated, not read from the library's table), every "
        "other iteration leaves it, and the loop stops only when fewer than 5 bytes are left.")
    for fn in ("config_set", "config_del", "config_poll"):
        for form in ("id", "name"):
            lab = f"{M}{fn}[{form} keys]"
            p.add(CustomUnit(lab, factory_unit, ("contracts.message", "c14_config", (fn, form), lab), props=("C14",), cost=40))
    db, _ = configdb.cfgdb()
    n = len(db)
    step = 60
    for lo in range(0, n, step):
        u = p.add(CustomUnit(f"cfg-lookups[{lo}:{min(lo + step, n)}]", configdb.lookup_chunk_unit, (lo, min(lo + step, n)),
                             props=("C14",), cost=10))
        p.replayers[u.name] = configdb.replay_lookup
    u = p.add(CustomUnit("cfg-lookups[residual]", configdb.lookup_residual_unit, (), props=("C14",), cost=20))
    p.replayers[u.name] = configdb.replay_lookup
    p.add(GroundUnit("ground.C14/configdb", ground.configdb_rules, (), props=("C14",)))
    p.add(GroundUnit("ground.C14/name-id-agreement", configdb.name_id_agreement, (), props=("C14",)))
    for mode, key in ((0, b"\x06\x8b"), (1, b"\x06\x8a")):
        u = CustomUnit(f"init[{inst.MODES[mode]}:{key.hex()}]", inst.init_unit, (mode, key), props=("C14",), cost=100)
        u.select = r"(_set_attribute_cfgval/loop1:|/raises:|call-pre:cfgkey2name|/C14:item:)"
        p.add(u)
        p.replayers[u.name] = inst.replay_instance
    p.add(BoundedUnit("bounded.C14/config-build-parse", bounded.config_roundtrip, (tier, seed), props=("C14",)))
    p.instances = {"database_keys": n}
    p.exhaustive = True
    p.min_obligations = 5000
    p.trusted_base += ["symbolic item lists: items are uninterpreted functions of the index; the ENC layout specification "
                       "(pvc/configdb.py) is the statement being proved, not derived from the code",
                       "constructor contract of UBXMessage.__init__ (used modularly by config_*; proved per instance)"]
    p.canary("max-items-65", "pyubx2.ubxmessage", "        if num > 64:\n            raise UBXMessageError(\n                f\"Number of configuration tuples",
             "        if num > 65:\n            raise UBXMessageError(\n                f\"Number of configuration tuples",
             CustomUnit("x", factory_unit, ("contracts.message", "c14_config", ("config_set", "id"), "x")))
    p.canary("key-as-u16", "pyubx2.ubxmessage", "            keyb = val2bytes(kid, U4)\n", "            keyb = val2bytes(kid, U2)\n",
             CustomUnit("x", factory_unit, ("contracts.message", "c14_config", ("config_set", "id"), "x")))
    p.canary("value-before-key", "pyubx2.ubxmessage", "            lis = lis + keyb + valb\n", "            lis = lis + valb + keyb\n",
             CustomUnit("x", factory_unit, ("contracts.message", "c14_config", ("config_set", "id"), "x")))
    # the parse-side loop: offset advance and stopping condition (step / exit clauses of the loop contract)
    cu = CustomUnit("x", inst.init_unit, (0, b"\x06\x8b"))
    cu.select = r"_set_attribute_cfgval/loop1:"
    p.canary("cfgval-advance-one-too-far", "pyubx2.ubxmessage", "                offset += KEYLEN + atts\n",
             "                offset += KEYLEN + atts + 1\n", cu)
    cu = CustomUnit("x", inst.init_unit, (1, b"\x06\x8a"))
    cu.select = r"_set_attribute_cfgval/loop1:"
    p.canary("cfgval-stops-a-key-early", "pyubx2.ubxmessage", "        while offset < cfglen:\n",
             "        while offset < cfglen - KEYLEN:\n", cu)
    p.canary("poll-header-order", "pyubx2.ubxmessage", "        payload = version + layer + position\n", "        payload = layer + version + position\n",
             CustomUnit("x", factory_unit, ("contracts.message", "c14_config", ("config_poll", "id"), "x")))
