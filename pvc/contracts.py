"""
Contract objects (sidecar notation) and the registry that decides, per call, whether a callee is
used by contract (modular) or by body (inlined).  Clauses are Python expressions (text) evaluated
by the same symbolic executor as the code; `result`, `old(e)`, `exc` and the spec functions of
contracts/specs.py are available inside clauses.
"""
from __future__ import annotations

import ast


class Loop:
    def __init__(self, inv=(), ghost=None, ghost_update=None, decreases=None, index="_k", kinds=None, keep=(),
                 heap=None, havoc_hooks=(), mode="cut", step=(), exit=()):
        self.mode = mode  # "cut": invariant-based loop cut; "step": one iteration from the (arbitrary) entry state
        self.inv = list(inv)
        self.ghost = dict(ghost or {})
        self.ghost_update = dict(ghost_update or {})
        self.decreases = decreases
        self.index = index
        self.kinds = dict(kinds or {})
        self.keep = set(keep)
        self.heap = dict(heap or {})
        self.havoc_hooks = list(havoc_hooks)
        # step clauses: proved after one execution of the body from an arbitrary state satisfying invariant and guard;
        # `pre_<local>` is the local's value at the start of that iteration.  exit clauses: proved from invariant and
        # negated guard.  Neither is assumed anywhere (they are conclusions about the loop, not part of the cut).
        self.step = list(step)
        self.exit = list(exit)

    def invariants(self):
        out = []
        for i, x in enumerate(self.inv):
            if isinstance(x, tuple):
                out.append(x)
            else:
                out.append((f"inv{i + 1}", x))
        return out


class Contract:
    def __init__(self, qualname, params=None, requires=(), ensures=(), raises=None, raises_iff=None,
                 ensures_exc=(), modifies=(), loops=None, returns=None, inline=(), properties=(), setup=None,
                 notes="", exc_modifies=None, pure=False, fresh_fields=None):
        self.qualname = qualname
        self.params = dict(params or {})  # name -> kind | callable(ex) -> value
        self.requires = self._lab(requires, "pre")
        self.ensures = self._lab(ensures, "post")
        self.raises = dict(raises or {})  # exception class name -> condition text | None
        self.raises_iff = dict(raises_iff or {})  # class name -> condition text (condition => raises)
        self.ensures_exc = self._lab(ensures_exc, "xpost")
        self.modifies = list(modifies)
        self.loops = dict(loops or {})
        self.returns = returns
        self.inline = set(inline)
        self.properties = list(properties)
        self.setup = setup
        self.notes = notes
        self.pure = pure
        self.fresh_fields = dict(fresh_fields or {})  # constructor contracts: field -> kind of the fresh value

    @staticmethod
    def _lab(items, prefix):
        out = []
        for i, x in enumerate(items):
            if isinstance(x, tuple):
                out.append(x)
            else:
                out.append((f"{prefix}{i + 1}", x))
        return out


_parse_cache = {}


def parse_expr(text):
    if text not in _parse_cache:
        _parse_cache[text] = ast.parse(text.strip(), mode="eval").body
    return _parse_cache[text]


def old_subexprs(node):
    """all old(e) calls inside an expression"""
    out = []
    for n in ast.walk(node):
        if isinstance(n, ast.Call) and isinstance(n.func, ast.Name) and n.func.id == "old" and len(n.args) == 1:
            out.append(n)
    return out


class Registry:
    def __init__(self):
        self.contracts = {}
        self.families = {}  # qualname -> (selector parameter, {concrete value: Contract})
        self.specs = {}
        self.force_inline = set()
        self.auto_loop_handler = None
        self.post_hooks = {}  # qualname -> callable(ex, frame, result) after the inlined body returned
        self.models = {}  # qualname -> callable(ex, args, kwargs): engine-side model of an external function
        self.by_contract_default = True
        self.callee_log = []  # (caller, callee, 'contract'|'body') for evidence
        self.native_specs = {}

    def add(self, c: Contract):
        self.contracts[c.qualname] = c
        return c

    def family(self, qualname, param, members):
        self.families[qualname] = (param, dict(members))

    def contract_for(self, ex, qn, args, kwargs):
        """the contract that governs this call, or None (=> use the body)"""
        if qn in self.contracts:
            return self.contracts[qn]
        if qn in self.families:
            from . import extract
            param, members = self.families[qn]
            finfo = extract.get_function(qn)
            env = ex.bind_params(finfo.node, args, kwargs, qn)
            key = env.get(param)
            if isinstance(key, str) and key in members:
                return members[key]
        return None

    def spec(self, name, fn, native=None):
        from .builtins_model import SpecFn
        self.specs[name] = SpecFn(name, fn, native)
        if native is not None:
            self.native_specs[name] = native

    def spec_lookup(self, name, fr):
        if getattr(fr, "spec_ok", False):
            return self.specs.get(name)
        return None

    # -- call dispatch
    def policy(self, ex, qn):
        if qn in self.models:
            return "model"
        cur = None
        for f in reversed(ex.frames):
            if f.verifying:
                cur = f
                break
        if qn in self.force_inline:
            return "body"
        if cur is not None and cur.contract is not None and qn in cur.contract.inline:
            return "body"
        if qn in self.contracts or qn in self.families:
            return "contract"
        return "body"

    def call(self, ex, qn, fobj, args, kwargs):
        from . import extract
        from .verify import apply_contract
        pol = self.policy(ex, qn)
        caller = ex.frames[-1].finfo.qualname if ex.frames and ex.frames[-1].finfo else "?"
        if ex.st.new_territory():
            self.callee_log.append((caller, qn, pol))
        if len(self.callee_log) > 200000:
            del self.callee_log[:100000]
        if pol == "model":
            r = self.models[qn](ex, args, kwargs)
            if r is not NotImplemented:
                return r
            pol = "contract" if (qn in self.contracts or qn in self.families) else "body"
        if pol == "contract":
            c = self.contract_for(ex, qn, args, kwargs)
            if c is not None:
                return apply_contract(ex, c, fobj, args, kwargs)
            pol = "body"
        try:
            finfo = extract.get_function(qn)
        except KeyError:
            from .values import Unsupported
            raise Unsupported(f"no source for {qn}")
        ex._defaults_module = finfo.module
        return ex.call_funcinfo(finfo, args, kwargs)

    def construct(self, ex, cls, args, kwargs):
        """instantiate a class of the analysed package: contract of __init__ or inlined __init__"""
        import types
        from .verify import apply_contract
        qn = f"{cls.__module__}.{cls.__qualname__}.__init__"
        init = ex.bm.class_attr(cls, "__init__")
        pol = self.policy(ex, qn)
        if pol == "contract":
            c = self.contracts[qn]
            return apply_contract(ex, c, init, [None] + list(args), kwargs, constructing=cls)
        obj = ex.bm.new_object(cls)
        if isinstance(init, types.FunctionType):
            self.call(ex, qn, init, [obj] + list(args), kwargs)
        return obj
