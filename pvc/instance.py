"""
Instance mode (DESIGN.md 2.7): the constructor of UBXMessage is verified once per table entry
(message class/ID x mode), with the payload bytes, payload length, group repeat counts and the bitfield flag
symbolic.  The real bodies of __init__, _do_attributes, _get_dict, the variant selectors and the _set_attribute*
walker are executed (partial evaluation over the concrete definition); helpers are used by contract.

Symbolic repeat counts: `for i in range(gsiz)` in _set_attribute_group is cut by the schematic invariant
    offset == offset_entry + i * G(group)        (G = static byte size of one repeat, from the layout oracle)
one arbitrary iteration is executed (attribute writes go to indexed families, checked against the oracle at the
write site), `inv-preserved` is proved, and execution continues after the loop with offset_entry + N*G.
"""
from __future__ import annotations

import re

import z3

from . import extract
from .contracts import Contract
from .exec import Executor, PyRaise, Frame
from .state import State, PathEnd
from .values import (SBytes, SInt, SBool, SStr, SFloat, Ref, ExcVal, Fmt, Unsupported, ContractOutOfDate, Base, zint,
                     zbool, mk_int, mk_bool, reset_names, fresh_name)
from .builtins_model import SymRange, KwMap
from .verify import FunctionResult, ContractFrame, _eval_clause, check_post, snapshot_olds

M = "pyubx2.ubxmessage.UBXMessage."
MODES = ["GET", "SET", "POLL"]


def tables():
    mod = extract.load_module("pyubx2.ubxtypes_core")[0]
    get = extract.load_module("pyubx2.ubxtypes_get")[0].UBX_PAYLOADS_GET
    set_ = extract.load_module("pyubx2.ubxtypes_set")[0].UBX_PAYLOADS_SET
    poll = extract.load_module("pyubx2.ubxtypes_poll")[0].UBX_PAYLOADS_POLL
    return mod.UBX_MSGIDS, mod.UBX_CLASSES, [get, set_, poll]


def message_keys():
    """2-byte class/ID prefixes of the message-ID table of the working tree (sorted)"""
    ids, _, _ = tables()
    return sorted({k[0:2] for k in ids})


def msg_class():
    return extract.load_module("pyubx2.ubxmessage")[0].UBXMessage


def class_attr_names():
    cls = msg_class()
    names = set()
    for c in cls.__mro__:
        names.update(c.__dict__.keys())
    # instance attributes the constructor itself creates
    names.update({"_immutable", "_mode", "_payload", "_length", "_checksum", "_parsebf", "_ubxClass", "_ubxID"})
    return names


# ---------------------------------------------------------------------------------------------------------
# symbolic group loops
# ---------------------------------------------------------------------------------------------------------
def group_loop_handler(ex, s, fr, it):
    """engine-provided schematic invariant for `for i in range(gsiz)` of _set_attribute_group"""
    if fr.finfo is None or not fr.finfo.qualname.endswith("UBXMessage._set_attribute_group"):
        return False
    if not isinstance(it, SymRange):
        return False
    from contracts.oracle import parse_def, static_size
    from .exec import _Break, _Continue
    st = ex.st
    gdict = fr.env.get("gdict")
    if not isinstance(gdict, dict):
        raise Unsupported("group loop: gdict is not a concrete definition")
    G = static_size(parse_def(gdict))
    if G is None:
        raise Unsupported("group loop: members without static size")
    lo, hi = zint(it.lo), zint(it.hi)
    if not (isinstance(it.lo, int) and it.lo == 0):
        raise Unsupported("group loop: range does not start at 0")
    N = z3.If(hi > 0, hi, z3.IntVal(0))
    off0 = fr.env["offset"]
    index = fr.env["index"]
    idx0 = list(st.rec(index)["items"])
    self_obj = fr.env["self"]
    kwmode = "payload" not in fr.env["kwargs"].items if isinstance(fr.env.get("kwargs"), KwMap) else False
    if kwmode:
        raise Unsupported("symbolic group count in keyword mode")
    label = f"{fr.finfo.qualname}/loop1"
    which = st.choice(2, "group-loop")
    if which == 0:
        i = z3.Int(fresh_name("rep"))
        st.assume(mk_bool(z3.And(i >= 0, i < N)))
        st.labels.append("group-loop:iteration")
        fr.env["offset"] = mk_int(zint(off0) + i * G)  # schematic invariant, assumed at the loop head
        ex.assign(s.target, SInt(i), fr)
        guard = st.ghost.setdefault("loopguard", [])
        guard.append(i)
        mon0 = st.ghost.get("monitor")
        writes_before = len(mon0.fam_writes) if mon0 is not None else 0
        heap_before = dict(st.rec(self_obj)["fields"])
        try:
            ex.exec_block(s.body, fr)
        except _Break:
            raise Unsupported("break in group loop")
        except _Continue:
            pass
        guard.pop()
        st.prove(f"{label}:inv-preserved:offset", mk_bool(zint(fr.env["offset"]) == zint(off0) + (i + 1) * G),
                 kind="inv-preserved", detail="offset == offset_entry + (i+1) * G")
        items = list(st.rec(fr.env["index"])["items"])
        ok = len(items) == len(idx0) and all(_same_val(a, b) for a, b in zip(items[:-1], idx0[:-1]))
        st.prove(f"{label}:inv-preserved:index", ok and mk_bool(zint(items[-1]) == i + 1), kind="inv-preserved",
                 detail="group index stack restored, innermost == i + 1")
        # loop frame: an iteration writes only indexed attribute families
        fields_after = st.rec(self_obj)["fields"]
        changed = [k for k in fields_after if k not in heap_before or fields_after[k] is not heap_before[k]]
        changed = [k for k in changed if not re.search(r"_\d\d", k)]
        st.prove(f"{label}:frame", not changed, kind="modifies",
                 detail=f"an iteration may write only its own indexed attributes, wrote {changed}")
        mon = st.ghost.get("monitor")
        if mon is not None:
            mon.iteration_done(ex, fr, i, writes_before)
        raise PathEnd()
    st.labels.append("group-loop:exit")
    fr.env["offset"] = mk_int(zint(off0) + N * G)
    st.rec(index)["items"] = list(idx0)
    fr.env[s.target.id] = mk_int(N - 1)
    return True


def _same_val(a, b):
    if isinstance(a, int) and isinstance(b, int):
        return a == b
    try:
        return zint(a).eq(zint(b))
    except Exception:
        return False


# ---------------------------------------------------------------------------------------------------------
# write monitor: attribute stores against the layout oracle (C02)
# ---------------------------------------------------------------------------------------------------------
class Monitor:
    def __init__(self, label, conforming=False):
        self.label = label
        self.conforming = conforming
        self.exp = None
        self.pdict = None
        self.fam_writes = []  # (base, idx tuple, value)
        self.top_order = []

    def got_dict(self, ex, self_obj, pdict, payload, pbf, mode_key):
        from contracts.oracle import expected_layout
        self.pdict = pdict
        if not isinstance(payload, SBytes) or not self.conforming:
            return
        self.exp = expected_layout(ex, pdict, payload, pbf, mode_key)
        # the conforming run: the payload is laid out according to the definition (C02's premise)
        for c in self.exp.conf:
            ex.st.assume(c)
        ex.st.ghost["conf_assumed"] = True

    def conf(self):
        return None if self.exp is None else True

    def on_store(self, ex, obj, name, idx, val):
        """every attribute store on the message under construction passes here"""
        if isinstance(name, str) and name.startswith("_") and not name.startswith("_HP"):
            return
        if idx is None:
            m = re.fullmatch(r"(.*?)((?:_\d\d+)+)", name) if isinstance(name, str) else None
            if m and self.exp is not None and m.group(1) in self.exp.families:
                base = m.group(1)
                idx = tuple(int(x) for x in m.group(2).split("_")[1:])
                self.family_store(ex, base, idx, val)
                return
            if name not in self.top_order:
                self.top_order.append(name)
            return
        self.family_store(ex, name, idx, val)

    def family_store(self, ex, base, idx, val):
        st = ex.st
        self.fam_writes.append((base, idx, val))
        if self.exp is None:
            return
        if base.startswith("reserved"):
            pass
        c = self.conf()
        spec = self.exp.families.get(base)
        if spec is None:
            st.prove(f"{self.label}/C02:family-defined:{base}", False, kind="ensures",
                     detail=f"repeated attribute {base} is not named by the definition", assume_after=False)
            return
        want = spec.fn(idx)
        if want is None:
            return
        eq = ex.bm.equals(val, want)
        st.prove(f"{self.label}/C02:value:{base}_NN", _implies(c, eq), kind="ensures",
                 detail=f"{base}[index] == decoding of the bytes at its offset (under conf)", assume_after=False)

    def iteration_done(self, ex, fr, i, writes_before):
        """after one arbitrary iteration: the members written are exactly the group's members, in payload order"""
        if self.exp is None:
            return
        st = ex.st
        gname = None
        bases = [b for (b, idx, v) in self.fam_writes[writes_before:]]
        # innermost group of this iteration: determined from the first written base
        if bases:
            gname = self.exp.families[bases[0]].group if bases[0] in self.exp.families else None
        if gname is None:
            return
        want = self.exp.group_order.get(gname, [])
        seen = []
        for b in bases:
            if b not in seen:
                seen.append(b)
        st.prove(f"{self.label}/C02:members:{gname}", seen == want, kind="ensures",
                 detail=f"one repeat of group {gname} sets {seen}, definition order is {want}", assume_after=False)

    def finish(self, ex, obj):
        """normal end of construction: concrete attributes against the oracle"""
        st = ex.st
        if self.exp is None:
            return
        c = self.conf()
        fields = st.rec(obj)["fields"]
        pub = [k for k in fields if not k.startswith("_")]
        top_pub = [k for k in pub if k in self.exp.top or not re.search(r"_\d\d", k)]
        want_names = list(self.exp.order)
        got_names = [k for k in self.top_order if k in fields and not k.startswith("_")]
        st.prove(f"{self.label}/C02:names", _implies(c, sorted(top_pub) == sorted(want_names)), kind="ensures",
                 detail=f"exposed attributes {sorted(top_pub)} vs definition {sorted(want_names)}", assume_after=False)
        st.prove(f"{self.label}/C02:order", _implies(c, got_names == want_names), kind="ensures",
                 detail="attributes are set in payload order", assume_after=False)
        for nm in want_names:
            want = self.exp.top.get(nm)
            if want is None or nm not in fields:
                continue
            st.prove(f"{self.label}/C02:value:{nm}", _implies(c, ex.bm.equals(fields[nm], want)), kind="ensures",
                     detail=f"{nm} == decoding of the bytes at its offset (under conf)", assume_after=False)
        # repeated attributes stored with concrete indices (fixed-count groups): exactly the definition's
        got = sorted(k for k in pub if k not in top_pub)
        want_fixed = []
        for gname, members in self.exp.group_order.items():
            N = self.exp.families.get("__count__" + gname)
            if isinstance(N, int):
                for m in members:
                    spec = self.exp.families[m]
                    if spec.depth == 1:
                        want_fixed += [f"{m}_{j:02d}" for j in range(1, N + 1)]
        sym_groups = [g for g in self.exp.group_order if not isinstance(self.exp.families.get("__count__" + g), int)]
        if not sym_groups:
            st.prove(f"{self.label}/C02:names-repeated", got == sorted(want_fixed), kind="ensures",
                     detail=f"repeated attributes {got[:6]}... vs definition {sorted(want_fixed)[:6]}...", assume_after=False)
        # families of symbolic groups: every group with a positive count must have been exercised on an iteration
        # path; families of fixed groups were stored with concrete indices and checked at the store

    def conforming_must_parse(self, ex, exc):
        c = self.conf()
        if c is None or not ex.st.ghost.get("conf_assumed"):
            return
        ex.st.prove(f"{self.label}/C02:conforming-payload-parses", _implies(c, False), kind="ensures",
                    detail=f"a payload laid out according to the definition is rejected with {exc.cls.__name__}",
                    assume_after=False)


def _implies(c, goal):
    if c is None or c is True:
        return goal
    if c is False:
        return True
    if goal is True:
        return True
    if goal is False:
        return mk_bool(z3.Not(c))
    return mk_bool(z3.Implies(c, zbool(goal)))


# ---------------------------------------------------------------------------------------------------------
# the instance unit
# ---------------------------------------------------------------------------------------------------------
def instance_label(mode, key):
    ids, classes, _ = tables()
    if key is None:
        return f"init[{MODES[mode]} unknown-id]"
    names = sorted({v for k, v in ids.items() if k[0:2] == key})
    nm = names[0] if len(names) == 1 else names[0].rsplit("-", 1)[0] + "*"
    return f"init[{MODES[mode]} {key.hex()} {nm}]"


def _after_get_dict(ex, fr, result):
    st = ex.st
    mon = st.ghost.get("monitor")
    if mon is None or not isinstance(result, dict):
        return
    obj = fr.env["self"]
    f = st.rec(obj)["fields"]
    payload = f.get("_payload")
    mode = f.get("_mode")
    cls, mid = f.get("_ubxClass"), f.get("_ubxID")
    mode_key = None
    if isinstance(cls, bytes) and isinstance(mid, bytes) and isinstance(mode, int):
        mode_key = (MODES[mode], cls + mid)
    kw = fr.env.get("kwargs")
    if isinstance(kw, KwMap) and "payload" in kw.items:
        mon.got_dict(ex, obj, result, payload, bool(f.get("_parsebf")), mode_key)


def install_instance(reg):
    reg.auto_loop_handler = group_loop_handler
    reg.post_hooks[M + "_get_dict"] = _after_get_dict
    reg.force_inline.update({M + "__init__", M + "_do_attributes", M + "_get_dict", M + "_set_attribute",
                             M + "_set_attribute_group", M + "_set_attribute_single", M + "_set_attribute_bitfield",
                             M + "_set_attribute_bits", M + "_set_attribute_cfgval", M + "_calc_num_repeats", M + "__setattr__", M + "identity",
                             "pyubx2.ubxhelpers.escapeall", "pyubx2.ubxhelpers.msgclass2bytes",
                             "pyubx2.ubxhelpers.msgstr2bytes", "pyubx2.ubxhelpers.key_from_val"})
    for nm in ("get_cfgtp5_dict", "get_mga_dict", "get_rxmpmreq_dict", "get_rxmpmp_dict", "get_rxmrlm_dict",
               "get_cfgnmea_dict", "get_aopstatus_dict", "get_relposned_dict", "get_timvcocal_dict",
               "get_cfgdat_dict", "get_secsig_dict", "get_alpsrv_dict"):
        reg.force_inline.add("pyubx2.ubxvariants." + nm)


def init_unit(ctx, res, col, reg, mode, key):
    """UBXMessage.__init__(cls, id, mode, parsebitfield=pbf, payload=P) for every payload P (any length), both
    bitfield views, plus the no-payload construction, for one class/ID (or the residual unknown-ID case)"""
    install_instance(reg)
    cls = msg_class()
    finfo = extract.get_function(M + "__init__")
    contract = reg.contracts[M + "__init__"]
    label = instance_label(mode, key)
    ids, classes, paytabs = tables()

    def body(ex, fres):
        st = ex.st
        ex._defaults_module = finfo.module
        # 0/1: any payload (any length), bitfields parsed / raw; 2: no payload;
        # 3/4: payload laid out according to the definition (C02's premise), bitfields parsed / raw
        variant = st.choice(5, "variant")
        if key is None:
            cb, ib = Base("ubxClass"), Base("ubxID")
            c_rope, i_rope = SBytes.view(cb, 0, 1), SBytes.view(ib, 0, 1)
            st.inputs["ubxClass"] = ("bytes", cb, z3.IntVal(1))
            st.inputs["ubxID"] = ("bytes", ib, z3.IntVal(1))
            known = sorted({k[0:2] for k in ids})
            st.assume(mk_bool(z3.And(*[z3.Not(z3.And(cb(0) == k[0], ib(0) == k[1])) for k in known])))
        else:
            c_rope, i_rope = key[0:1], key[1:2]
        obj = ex.bm.new_object(cls)
        kwargs = {}
        pbf = True
        sub = "nopayload"
        P = None
        conforming = variant in (3, 4)
        if conforming and key in (b"\x06\x8b", b"\x06\x8a") and ((key == b"\x06\x8b" and mode == 0) or
                                                                   (key == b"\x06\x8a" and mode == 1)):
            raise PathEnd()  # CFG-VALGET / CFG-VALSET payloads are key/value lists: their layout is C14's subject
        if variant in (0, 1, 3, 4):
            pb = Base("payload")
            pn = z3.Int("payload_len")
            st.assume(mk_bool(z3.And(pn >= 0, pn <= 65535)))
            st.inputs["payload"] = ("bytes", pb, pn)
            P = SBytes.view(pb, 0, pn)
            pbf = variant in (0, 3)
            kwargs = {"payload": P, "parsebitfield": pbf}
            sub = f"pbf={int(pbf)}" + (" conforming" if conforming else "")
        lab = f"{label[:-1]} {sub}]"
        mon = Monitor(lab, conforming)
        st.ghost["monitor"] = mon
        st.ghost["monitor_obj"] = obj.id
        env = {"self": obj, "ubxClass": c_rope, "ubxID": i_rope, "msgmode": mode, "parsebitfield": pbf,
               "kwargs": KwMap({k: v for k, v in kwargs.items() if k != "parsebitfield"})}
        cfr = ContractFrame(finfo, env)
        entry_max = st._next_id
        snapshot_olds(ex, contract, cfr, contract.ensures + contract.ensures_exc)
        st.writes = []
        args = [obj, c_rope, i_rope, mode]
        try:
            ex.call_funcinfo(finfo, args, dict(kwargs), verifying=False)
            outcome = ("return", None)
        except PyRaise as pr:
            outcome = ("raise", pr.exc)
        key_out = outcome[0] if outcome[0] == "return" else "raise:" + outcome[1].cls.__name__
        fres.outcomes[key_out] = fres.outcomes.get(key_out, 0) + 1
        # generic constructor contract (C01 / C08 / C13): ensures, raises, modifies
        # object under construction is pre-existing for the frame check: only its own fields may be written
        check_post(ex, reg, contract, finfo, cfr, outcome, lab, obj.id)
        if outcome[0] == "raise":
            mon.conforming_must_parse(ex, outcome[1])
            return
        mon.finish(ex, obj)
        # inspection of the finished message must not raise (C08); serialize reproduces the frame (C01)
        inspect_message(ex, reg, obj, lab, c_rope, i_rope, P)

    from .reader_units import explore
    explore(col, reg, label, body)
    res.functions += sorted(reg.force_inline)


def inspect_message(ex, reg, obj, lab, c_rope, i_rope, P):
    st = ex.st
    cls = msg_class()
    for attr in ("identity", "length", "payload", "msgmode", "msg_cls", "msg_id"):
        try:
            ex.bm.get_attr(obj, attr)
        except PyRaise as pr:
            st.prove(f"{lab}/C08:inspect:{attr}", False, kind="raises",
                     detail=f"{attr} raises {pr.exc.cls.__name__} on a message the constructor returned", assume_after=False)
        else:
            st.prove(f"{lab}/C08:inspect:{attr}", True, kind="raises")
    for meth in ("__repr__", "serialize"):
        f = ex.bm.class_attr(cls, meth)
        try:
            r = ex.bm.call_pyfunc(f, [obj], {})
        except PyRaise as pr:
            st.prove(f"{lab}/C08:inspect:{meth}", False, kind="raises",
                     detail=f"{meth} raises {pr.exc.cls.__name__}", assume_after=False)
        else:
            st.prove(f"{lab}/C08:inspect:{meth}", True, kind="raises")


# ---------------------------------------------------------------------------------------------------------
# native replay of instance obligations
# ---------------------------------------------------------------------------------------------------------
_NAME_RE = re.compile(r"init\[(GET|SET|POLL) (unknown-id|[0-9a-f]{4})(?: [^\]]*?)?(?: (pbf=[01]|nopayload))?( conforming)?\]/(.*)")


def replay_instance(o):
    """re-run a failed instance obligation on the real constructor with the counter-model's payload"""
    import contextlib
    import io
    from pyubx2 import UBXMessage
    import pyubx2.exceptions as ube
    from contracts.oracle import native_expected
    m = _NAME_RE.match(o.name)
    info = {"reproduced": False}
    if not m:
        info["note"] = "obligation name not understood by the instance replayer"
        return info
    mode = MODES.index(m.group(1))
    inp = o.inputs or {}
    if m.group(2) == "unknown-id":
        cls, mid = inp.get("ubxClass", b"\x00"), inp.get("ubxID", b"\x00")
    else:
        k = bytes.fromhex(m.group(2))
        cls, mid = k[0:1], k[1:2]
    variant = m.group(3) or "nopayload"
    what = m.group(5)
    kwargs = {}
    if variant != "nopayload":
        kwargs = {"payload": inp.get("payload", b""), "parsebitfield": variant == "pbf=1"}
    info["call"] = f"UBXMessage({cls!r}, {mid!r}, {mode}, " + ", ".join(f"{k}={v!r}" for k, v in kwargs.items()) + ")"
    out = io.StringIO()
    msg = exc = None
    with contextlib.redirect_stdout(out), contextlib.redirect_stderr(out):
        try:
            msg = UBXMessage(cls, mid, mode, **kwargs)
        except Exception as e:  # noqa
            exc = e
    info["observed"] = f"raised {type(exc).__name__}: {exc}"[:300] if exc else f"returned {msg!r}"[:300]
    ubx = (ube.UBXMessageError, ube.UBXTypeError, ube.UBXParseError)
    if what.startswith("raises:"):
        info["reproduced"] = exc is not None and not isinstance(exc, ubx)
    elif what == "modifies":
        info["reproduced"] = bool(out.getvalue())
        info["stdout"] = out.getvalue()[:200]
    elif what.startswith("C02:conforming-payload-parses"):
        info["reproduced"] = exc is not None
    elif what.startswith("C08:inspect:") and msg is not None:
        attr = what.split(":")[2]
        try:
            v = getattr(msg, attr)
            if callable(v):
                v()
        except Exception as e:  # noqa
            info["reproduced"] = True
            info["observed"] = f"{attr} raised {type(e).__name__}: {e}"
    elif what.startswith("C02:") and msg is not None and "payload" in kwargs:
        defn = msg._get_dict(**kwargs)
        want = native_expected(defn, kwargs["payload"], kwargs["parsebitfield"],
                               (MODES[mode], cls + mid))
        got = {k: v for k, v in msg.__dict__.items() if not k.startswith("_")}
        if want is not None:
            diff = {k: (got.get(k), want.get(k)) for k in set(got) | set(want) if got.get(k) != want.get(k)}
            order_ok = list(got) == [k for k in want if k in got]
            info["reproduced"] = bool(diff) or not order_ok
            info["difference"] = repr(diff)[:500]
    elif what.startswith("ensures:") and msg is not None:
        ser = msg.serialize()
        pl = kwargs.get("payload", b"")
        from contracts.specs import n_fletcher8
        body = cls + mid + len(pl).to_bytes(2, "little") + pl
        info["reproduced"] = ser != b"\xb5\x62" + body + n_fletcher8(body) or msg._mode != mode
    return info
