"""
Instance mode (DESIGN.md 2.7): the constructor of UBXMessage is verified once per table entry
(message class/ID x mode), with the payload bytes, payload length, group repeat counts and the bitfield flag
symbolic.  The real bodies of __init__, _do_attributes, _get_dict, the variant selectors and the _set_attribute*
walker are executed (partial evaluation over the concrete definition); helpers are used by contract.

Symbolic repeat counts: `for i in range(gsiz)` in _set_attribute_group is cut by the schematic invariant
    offset == offset_entry + i * G(group)        (G = static byte size of one repeat, from the layout oracle)
one arbitrary iteration is executed (attribute writes go to indexed families, checked against the oracle at the
write site), `inv-preserved` is proved, and execution continues after the loop with offset_entry + N*G.
"""
from __future__ import annotations

import re

import z3

from . import extract
from .contracts import Contract
from .exec import Executor, PyRaise, Frame
from .state import State, PathEnd
from .values import (SBytes, SInt, SBool, SStr, SFloat, Ref, ExcVal, Fmt, Unsupported, ContractOutOfDate, Base, zint,
                     zbool, mk_int, mk_bool, reset_names, fresh_name)
from .builtins_model import SymRange, KwMap
from .verify import FunctionResult, ContractFrame, _eval_clause, check_post, snapshot_olds

M = "pyubx2.ubxmessage.UBXMessage."
MODES = ["GET", "SET", "POLL"]


def tables():
    mod = extract.load_module("pyubx2.ubxtypes_core")[0]
    get = extract.load_module("pyubx2.ubxtypes_get")[0].UBX_PAYLOADS_GET
    set_ = extract.load_module("pyubx2.ubxtypes_set")[0].UBX_PAYLOADS_SET
    poll = extract.load_module("pyubx2.ubxtypes_poll")[0].UBX_PAYLOADS_POLL
    return mod.UBX_MSGIDS, mod.UBX_CLASSES, [get, set_, poll]


def message_keys():
    """2-byte class/ID prefixes of the message-ID table of the working tree (sorted)"""
    ids, _, _ = tables()
    return sorted({k[0:2] for k in ids})


def msg_class():
    return extract.load_module("pyubx2.ubxmessage")[0].UBXMessage


def class_attr_names():
    cls = msg_class()
    names = set()
    for c in cls.__mro__:
        names.update(c.__dict__.keys())
    # instance attributes the constructor itself creates
    names.update({"_immutable", "_mode", "_payload", "_length", "_checksum", "_parsebf", "_ubxClass", "_ubxID"})
    return names


# ---------------------------------------------------------------------------------------------------------
# symbolic group loops
# ---------------------------------------------------------------------------------------------------------
def group_loop_handler(ex, s, fr, it):
    """engine-provided schematic invariant for `for i in range(gsiz)` of _set_attribute_group"""
    if fr.finfo is None or not fr.finfo.qualname.endswith("UBXMessage._set_attribute_group"):
        return False
    if not isinstance(it, SymRange):
        return False
    from contracts.oracle import parse_def, static_size
    from .exec import _Break, _Continue
    st = ex.st
    gdict = fr.env.get("gdict")
    if not isinstance(gdict, dict):
        raise Unsupported("group loop: gdict is not a concrete definition")
    G = static_size(parse_def(gdict))
    if G is None:
        raise Unsupported("group loop: members without static size")
    lo, hi = zint(it.lo), zint(it.hi)
    if not (isinstance(it.lo, int) and it.lo == 0):
        raise Unsupported("group loop: range does not start at 0")
    N = z3.If(hi > 0, hi, z3.IntVal(0))
    off0 = fr.env["offset"]
    index = fr.env["index"]
    idx0 = list(st.rec(index)["items"])
    self_obj = fr.env["self"]
    kw = fr.env.get("kwargs")
    kwmode = isinstance(kw, KwMap) and kw.sym is not None
    if kwmode:
        return _kw_group_loop(ex, s, fr, N, G, gdict, idx0, self_obj)
    label = f"{fr.finfo.qualname}/loop1"
    mon_ = st.ghost.get("monitor")
    if mon_ is not None and mon_.exp is not None and len(idx0) <= 1:
        # the number of repeats the code performs is the number the definition prescribes (conforming variant)
        members = []
        for k_, v_ in gdict.items():
            members.append(k_)
            if isinstance(v_, tuple) and len(v_) == 2 and isinstance(v_[1], dict):
                members.extend(v_[1].keys())  # flags of a bitfield member / members of a nested group
        spec = next((mon_.exp.families[m_] for m_ in members if m_ in mon_.exp.families), None)
        gname = getattr(spec, "group", None)
        if gname in mon_.exp.group_counts:
            want = mon_.exp.group_counts[gname]
            st.prove(f"{mon_.label}/C02:repeats:{gname}", mk_bool(N == zint(want)), kind="ensures",
                     detail=f"group {gname} is repeated as often as its count field / the payload length prescribes",
                     assume_after=False)
    which = st.choice(2, "group-loop")
    if which == 0:
        i = z3.Int(fresh_name("rep"))
        st.assume(mk_bool(z3.And(i >= 0, i < N)))
        st.labels.append("group-loop:iteration")
        fr.env["offset"] = mk_int(zint(off0) + i * G)  # schematic invariant, assumed at the loop head
        ex.assign(s.target, SInt(i), fr)
        guard = st.ghost.setdefault("loopguard", [])
        guard.append(i)
        mon0 = st.ghost.get("monitor")
        writes_before = len(mon0.fam_writes) if mon0 is not None else 0
        heap_before = dict(st.rec(self_obj)["fields"])
        try:
            ex.exec_block(s.body, fr)
        except _Break:
            raise Unsupported("break in group loop")
        except _Continue:
            pass
        guard.pop()
        st.prove(f"{label}:inv-preserved:offset", mk_bool(zint(fr.env["offset"]) == zint(off0) + (i + 1) * G),
                 kind="inv-preserved", detail="offset == offset_entry + (i+1) * G")
        items = list(st.rec(fr.env["index"])["items"])
        ok = len(items) == len(idx0) and all(_same_val(a, b) for a, b in zip(items[:-1], idx0[:-1]))
        st.prove(f"{label}:inv-preserved:index", ok and mk_bool(zint(items[-1]) == i + 1), kind="inv-preserved",
                 detail="group index stack restored, innermost == i + 1")
        # loop frame: an iteration writes only indexed attribute families
        fields_after = st.rec(self_obj)["fields"]
        changed = [k for k in fields_after if k not in heap_before or fields_after[k] is not heap_before[k]]
        changed = [k for k in changed if not re.search(r"_\d\d", k)]
        st.prove(f"{label}:frame", not changed, kind="modifies",
                 detail=f"an iteration may write only its own indexed attributes, wrote {changed}")
        mon = st.ghost.get("monitor")
        if mon is not None:
            mon.iteration_done(ex, fr, i, writes_before)
        raise PathEnd()
    st.labels.append("group-loop:exit")
    fr.env["offset"] = mk_int(zint(off0) + N * G)
    st.rec(index)["items"] = list(idx0)
    fr.env[s.target.id] = mk_int(N - 1)
    return True


def fam_name(base, idx):
    """attribute name of a repeated attribute: base + '_' + two-digit index per nesting level (as the README states)"""
    from .values import mk_str
    pieces = [base]
    for i in idx:
        if isinstance(i, int):
            pieces.append(f"_{i:02d}")
        else:
            pieces += ["_", Fmt(zint(i), "02d")]
    return mk_str(pieces)


def _kw_group_loop(ex, s, fr, N, G, gdict, idx0, self_obj):
    """keyword mode: each repeat appends G bytes.  Cut: before an arbitrary repeat i the payload is
    prefix + (i * G arbitrary bytes); the repeat is run once and the G appended bytes are decoded by the layout
    oracle and compared with the keyword values of index i+1; after the loop the payload is prefix + N*G bytes."""
    from contracts.oracle import expected_layout
    from .exec import _Break, _Continue
    st = ex.st
    label = f"{fr.finfo.qualname}/loop1[kw]"
    rec = st.rec(self_obj)
    prefix = rec["fields"]["_payload"]
    prefix = prefix if isinstance(prefix, SBytes) else SBytes.lit(bytes(prefix))
    index = fr.env["index"]
    off0 = fr.env["offset"]
    prov = st.ghost.get("kwprovider")
    st.ghost["kw_symbolic_group"] = True
    which = st.choice(2, "kw-group-loop")
    if which == 0:
        i = z3.Int(fresh_name("rep"))
        st.assume(mk_bool(z3.And(i >= 0, i < N)))
        st.labels.append("kw-group-loop:iteration")
        earlier = SBytes.view(Base("earlier_repeats"), 0, z3.simplify(i * G))
        before = prefix.concat(earlier)
        rec["fields"]["_payload"] = before
        fr.env["offset"] = mk_int(zint(off0) + i * G)
        ex.assign(s.target, SInt(i), fr)
        try:
            ex.exec_block(s.body, fr)
        except (_Break, _Continue):
            raise Unsupported("break/continue in group loop")
        after = rec["fields"]["_payload"]
        nseg = len(before.segs)
        same_prefix = isinstance(after, SBytes) and len(after.segs) >= nseg and \
            all(a.key() == b.key() for a, b in zip(after.segs[:nseg], before.segs))
        st.prove(f"{label}:appends-only", same_prefix, kind="inv-preserved",
                 detail="a repeat only appends to the payload (earlier bytes untouched)")
        if not same_prefix:
            raise PathEnd()
        appended = SBytes(after.segs[nseg:])
        st.prove(f"{label}:appends-G-bytes", mk_bool(zint(appended.length()) == G), kind="inv-preserved",
                 detail=f"one repeat appends exactly {G} bytes")
        st.prove(f"{label}:inv-preserved:offset", mk_bool(zint(fr.env["offset"]) == zint(off0) + (i + 1) * G),
                 kind="inv-preserved")
        if prov is None or appended.concrete_len() != G:
            raise Unsupported(f"keyword group loop: appended bytes not of concrete length ({appended!r})")
        if True:
            exp = expected_layout(ex, gdict, appended, True, None)
            idx = list(idx0[:-1]) + [i + 1]
            for bf in _bitfields_of(gdict):
                _check_kw_bitfield(ex, prov, label, bf.name, bf.flags, exp.leaves[bf.name]["raw"],
                                   lambda fn, idx=idx: fam_name(fn, idx), bf.name + "_NN")
            for name, leaf in exp.leaves.items():
                typ = leaf["typ"]
                if typ == "flag" or _is_bitfield(gdict, name):
                    continue
                _check_kw_leaf(ex, prov, f"{label}", fam_name(name, idx), name + "_NN", leaf)
            for base, spec in exp.families.items():
                if base.startswith("__count__"):
                    continue
                cnt = exp.families.get("__count__" + spec.group)
                if isinstance(cnt, int):
                    for j in range(1, cnt + 1):
                        raw = spec.fn((j,), raw_only=True)
                        leaf = {"raw": raw, "typ": spec.typ, "scale": spec.scale}
                        if spec.typ == "flag" and base.startswith("reserved"):
                            continue
                        _check_kw_leaf(ex, prov, f"{label}", fam_name(base, idx + [j]), base + "_NN_MM", leaf)
        raise PathEnd()
    st.labels.append("kw-group-loop:exit")
    rec["fields"]["_payload"] = prefix.concat(SBytes.view(Base("all_repeats"), 0, z3.simplify(N * G)))
    fr.env["offset"] = mk_int(zint(off0) + N * G)
    st.rec(index)["items"] = list(idx0)
    fr.env[s.target.id] = mk_int(N - 1)
    return True


def _check_kw_bitfield(ex, prov, label, bf_name, flags, raw_bytes, name_of, shown):
    """the built bitfield, read as a little-endian integer, equals the sum of the supplied flag values shifted to
    their bit offsets (reserved flags and omitted flags contribute 0): every flag sits in its own slot"""
    st = ex.st
    u = ex.bm.int_from_bytes(raw_bytes, "little", signed=False)
    total = z3.IntVal(0)
    bo = 0
    for fn, w in flags:
        eff = prov.effective(name_of(fn), 0)
        total = total + zint(eff) * (1 << bo)
        bo += w
    st.prove(f"{label}/C03:field:{shown}", mk_bool(zint(u) == total), kind="ensures",
             detail=f"bitfield {shown} == sum of supplied flag values << their offsets", assume_after=False)


def _bitfields_of(defn):
    from contracts.oracle import parse_def, Bitfield
    return [e for e in parse_def(defn) if isinstance(e, Bitfield)]


def _check_kw_leaf(ex, prov, label, key, shown, leaf):
    """the bytes just built for attribute `key` decode (raw) to the keyword value, or to the nominal when omitted"""
    from .values import fdiv, fconst, f2i, i2f
    st = ex.st
    typ, scale, raw = leaf["typ"], leaf["scale"], leaf["raw"]
    if raw is None:
        return
    if typ == "CH":
        # text: the field holds the supplied text in the library's text codec (nothing when omitted)
        p_ = prov.contains(ex.bm, key)
        if p_ is False:
            st.prove(f"{label}/C03:field:{shown}", ex.bm.equals(raw, b""), kind="ensures",
                     detail=f"text field {shown} is empty when omitted", assume_after=False)
            return
        v_ = prov._entry(key, "")[1]
        if isinstance(v_, SStr):
            want = ex.bm.str_method(v_, "encode", ["utf-8", "backslashreplace"], {})
            st.prove(f"{label}/C03:field:{shown}", ex.bm.or_(ex.not_(p_), ex.bm.equals(raw, want)), kind="ensures",
                     detail=f"bytes of {shown} == the supplied text in the library's text codec", assume_after=False)
            st.prove(f"{label}/C03:field:{shown}:omitted", ex.bm.or_(p_, ex.bm.equals(raw, b"")), kind="ensures",
                     detail=f"text field {shown} is empty when omitted", assume_after=False)
        return
    if typ[0] == "R" and leaf.get("bytes") is not None:
        from .builtins_model import PACKF
        n = int(typ[1:4])
        eff = prov.effective(key, 0.0)
        if isinstance(eff, SFloat):
            fb = leaf["bytes"]
            ok = True
            for j in range(n):
                ok = ex.bm.and_(ok, mk_bool(fb.at(j) == PACKF(z3.IntVal(n), eff.e, z3.IntVal(j))))
            st.prove(f"{label}/C03:field:{shown}", ok, kind="ensures",
                     detail=f"bytes of {shown} == IEEE-754 encoding of the supplied value (of 0.0 when omitted), unrounded",
                     assume_after=False)
        return
    if typ[0] == "A":
        n = int(typ[1:4])
        eff = prov.effective(key, [0] * n)
        st.prove(f"{label}/C03:field:{shown}", ex.bm.equals(raw, eff), kind="ensures",
                 detail=f"cells of {shown} == supplied list (zeros when omitted)", assume_after=False)
        return
    if typ == "flag" or typ[0] in "EILU":
        eff = prov.effective(key, 0)
        if isinstance(eff, SFloat):
            c = fconst(float(scale)) if not isinstance(scale, int) else i2f(z3.IntVal(scale))
            want = mk_int(f2i(fdiv(eff.e, c)))
        elif isinstance(scale, int) and scale != 1:
            want = mk_int(zint(eff) / scale)  # supplied value is raw * scale exactly
        else:
            want = eff
        st.prove(f"{label}/C03:field:{shown}", ex.bm.equals(raw, want), kind="ensures",
                 detail=f"{shown} in the built payload == supplied value (0 when omitted)", assume_after=False)
    elif typ[0] in "XC":
        n = int(typ[1:4])
        st.prove(f"{label}/C03:field:{shown}", ex.bm.equals(raw, prov.effective(key, bytes(n))), kind="ensures",
                 detail=f"bytes of {shown} == supplied (zeros when omitted)", assume_after=False)


def _same_val(a, b):
    if isinstance(a, int) and isinstance(b, int):
        return a == b
    try:
        if zint(a).eq(zint(b)):
            return True
        d = z3.simplify(zint(a) - zint(b))
        return z3.is_int_value(d) and d.as_long() == 0
    except Exception:
        return False


# ---------------------------------------------------------------------------------------------------------
# write monitor: attribute stores against the layout oracle (C02)
# ---------------------------------------------------------------------------------------------------------
class Monitor:
    def __init__(self, label, conforming=False):
        self.label = label
        self.conforming = conforming
        self.exp = None
        self.pdict = None
        self.fam_writes = []  # (base, idx tuple, value)
        self.top_order = []

    def got_dict(self, ex, self_obj, pdict, payload, pbf, mode_key):
        from contracts.oracle import expected_layout
        self.pdict = pdict
        if not isinstance(payload, SBytes) or not self.conforming:
            return
        self.exp = expected_layout(ex, pdict, payload, pbf, mode_key)
        # the conforming run: the payload is laid out according to the definition (C02's premise)
        for c in self.exp.conf:
            ex.st.assume(c)
        # a payload that conforms to a UBX definition fits the frame's 16-bit length field (the arbitrary-length
        # variants, not this one, cover what happens beyond it)
        ex.st.assume(mk_bool(zint(payload.length()) <= 65535))
        ex.st.ghost["conf_assumed"] = True

    def conf(self):
        return None if self.exp is None else True

    def on_store(self, ex, obj, name, idx, val):
        """every attribute store on the message under construction passes here"""
        if isinstance(name, str) and name.startswith("_") and not name.startswith("_HP"):
            return
        if idx is None:
            m = re.fullmatch(r"(.*?)((?:_\d\d+)+)", name) if isinstance(name, str) else None
            if m and self.exp is not None and m.group(1) in self.exp.families:
                base = m.group(1)
                idx = tuple(int(x) for x in m.group(2).split("_")[1:])
                self.family_store(ex, base, idx, val)
                return
            if name not in self.top_order:
                self.top_order.append(name)
            return
        self.family_store(ex, name, idx, val)

    def family_store(self, ex, base, idx, val):
        st = ex.st
        self.fam_writes.append((base, idx, val))
        if self.exp is None:
            return
        if base.startswith("reserved"):
            pass
        c = self.conf()
        spec = self.exp.families.get(base)
        if spec is None:
            st.prove(f"{self.label}/C02:family-defined:{base}", False, kind="ensures",
                     detail=f"repeated attribute {base} is not named by the definition", assume_after=False)
            return
        want = spec.fn(idx)
        if want is None:
            return
        eq = ex.bm.equals(val, want)
        st.prove(f"{self.label}/C02:value:{base}_NN", _implies(c, eq), kind="ensures",
                 detail=f"{base}[index] == decoding of the bytes at its offset (under conf)", assume_after=False)

    def iteration_done(self, ex, fr, i, writes_before):
        """after one arbitrary iteration: the members written are exactly the group's members, in payload order"""
        if self.exp is None:
            return
        st = ex.st
        gname = None
        bases = [b for (b, idx, v) in self.fam_writes[writes_before:]]
        # innermost group of this iteration: determined from the first written base
        if bases:
            gname = self.exp.families[bases[0]].group if bases[0] in self.exp.families else None
        if gname is None:
            return
        want = self.exp.group_order.get(gname, [])
        seen = []
        for b in bases:
            if b not in seen:
                seen.append(b)
        st.prove(f"{self.label}/C02:members:{gname}", seen == want, kind="ensures",
                 detail=f"one repeat of group {gname} sets {seen}, definition order is {want}", assume_after=False)

    def finish(self, ex, obj):
        """normal end of construction: concrete attributes against the oracle"""
        st = ex.st
        if self.exp is None:
            return
        c = self.conf()
        fields = st.rec(obj)["fields"]
        pub = [k for k in fields if not k.startswith("_")]
        top_pub = [k for k in pub if k in self.exp.top or not re.search(r"_\d\d", k)]
        want_names = list(self.exp.order)
        got_names = [k for k in self.top_order if k in fields and not k.startswith("_")]
        st.prove(f"{self.label}/C02:names", _implies(c, sorted(top_pub) == sorted(want_names)), kind="ensures",
                 detail=f"exposed attributes {sorted(top_pub)} vs definition {sorted(want_names)}", assume_after=False)
        st.prove(f"{self.label}/C02:order", _implies(c, got_names == want_names), kind="ensures",
                 detail="attributes are set in payload order", assume_after=False)
        for nm in want_names:
            want = self.exp.top.get(nm)
            if want is None or nm not in fields:
                continue
            st.prove(f"{self.label}/C02:value:{nm}", _implies(c, ex.bm.equals(fields[nm], want)), kind="ensures",
                     detail=f"{nm} == decoding of the bytes at its offset (under conf)", assume_after=False)
        # repeated attributes stored with concrete indices (fixed-count groups): exactly the definition's
        got = sorted(k for k in pub if k not in top_pub)
        want_fixed = []
        for gname, members in self.exp.group_order.items():
            N = self.exp.families.get("__count__" + gname)
            if isinstance(N, int):
                for m in members:
                    spec = self.exp.families[m]
                    if spec.depth == 1:
                        want_fixed += [f"{m}_{j:02d}" for j in range(1, N + 1)]
        sym_groups = [g for g in self.exp.group_order if not isinstance(self.exp.families.get("__count__" + g), int)]
        if not sym_groups:
            st.prove(f"{self.label}/C02:names-repeated", got == sorted(want_fixed), kind="ensures",
                     detail=f"repeated attributes {got[:6]}... vs definition {sorted(want_fixed)[:6]}...", assume_after=False)
        # families of symbolic groups: every group with a positive count must have been exercised on an iteration
        # path; families of fixed groups were stored with concrete indices and checked at the store

    def on_symstore(self, ex, obj, name, val):
        """an attribute stored under a looked-up (symbolic) name: the key/value loop of CFG-VALGET / CFG-VALSET parsing.
        One arbitrary item (the loop is cut, so this iteration starts at an arbitrary offset of an arbitrary payload):
        the key is the little-endian 32-bit word at the item's offset, the attribute is stored under the name the
        documented lookup gives for that key, and its value is the decoding - by that key's type - of the bytes that
        follow the key."""
        fr = next((f for f in reversed(ex.frames) if f.finfo is not None
                   and f.finfo.qualname.endswith("UBXMessage._set_attribute_cfgval")), None)
        if fr is None:
            return False
        st = ex.st
        env = fr.env
        P = st.rec(obj)["fields"].get("_payload")
        off, key, keyname, att = env.get("offset"), env.get("key"), env.get("keyname"), env.get("att")
        lab = self.label
        if not isinstance(P, SBytes) or off is None or key is None:
            return False
        word = ex.bm.subscript(P, slice(off, mk_int(zint(off) + 4), None))
        st.prove(f"{lab}/C14:item:key-read-at-its-offset",
                 ex.bm.equals(key, ex.bm.int_from_bytes(word, "little", signed=False)), kind="ensures",
                 detail="key == little-endian 32-bit word at the item's offset", assume_after=False)
        same_name = name is keyname or (isinstance(name, SStr) and isinstance(keyname, SStr) and len(name.pieces) == len(keyname.pieces)
                                        and all(a is b or (isinstance(a, str) and a == b) for a, b in zip(name.pieces, keyname.pieces)))
        st.prove(f"{lab}/C14:item:stored-under-the-lookup-name", bool(same_name), kind="ensures",
                 detail="the attribute name is the one cfgkey2name returned for the key (unchanged)", assume_after=False)
        if isinstance(att, str) and re.fullmatch(r"[EILUXR]\d{3}", att):
            n = int(att[1:4])
            vb = ex.bm.subscript(P, slice(mk_int(zint(off) + 4), mk_int(zint(off) + 4 + n), None))
            L = att[0]
            if L in "EILU":
                want = ex.bm.int_from_bytes(vb, "little", signed=(L == "I"))
            elif L == "X":
                want = vb
            else:
                want = None
            if want is not None:
                # (a value cut short by the end of the payload decodes what is there - the constructor's own length
                # handling; the comparison is on the same slice expression)
                st.prove(f"{lab}/C14:item:value-decodes-by-the-key's-type", ex.bm.equals(val, want), kind="ensures",
                         detail=f"value == {att} decoding of the bytes following the key", assume_after=False)
        return True

    def conforming_must_parse(self, ex, exc):
        c = self.conf()
        if c is None or not ex.st.ghost.get("conf_assumed"):
            return
        ex.st.prove(f"{self.label}/C02:conforming-payload-parses", _implies(c, False), kind="ensures",
                    detail=f"a payload laid out according to the definition is rejected with {exc.cls.__name__}",
                    assume_after=False)


def _implies(c, goal):
    if c is None or c is True:
        return goal
    if c is False:
        return True
    if goal is True:
        return True
    if goal is False:
        return mk_bool(z3.Not(c))
    return mk_bool(z3.Implies(c, zbool(goal)))


# ---------------------------------------------------------------------------------------------------------
# the instance unit
# ---------------------------------------------------------------------------------------------------------
def instance_label(mode, key):
    ids, classes, _ = tables()
    if key is None:
        return f"init[{MODES[mode]} unknown-id]"
    if key == "odd":
        return f"init[{MODES[mode]} odd-id]"
    names = sorted({v for k, v in ids.items() if k[0:2] == key})
    nm = names[0] if len(names) == 1 else names[0].rsplit("-", 1)[0] + "*"
    return f"init[{MODES[mode]} {key.hex()} {nm}]"


def lookup_refused(ex, label, mode, key, payload, exc, prov=None, oblig="C02:conforming-payload-parses"):
    """the constructor raised before a definition was selected (conforming variant): for a message that has a definition
    in this mode that is a refusal of a declared message - unless, for multi-layout messages, no selection rule with a
    definition applies to this payload"""
    from contracts.oracle import expected_definition_rules
    st = ex.st
    ids, _, paytabs = tables()
    if not (isinstance(key, bytes) and len(key) == 2):
        return
    rules = expected_definition_rules(MODES[mode], key, ids)
    detail = f"the definition lookup refuses a declared message with {exc.cls.__name__}"
    if rules is None:
        name = ids.get(key)
        if name is not None and name in paytabs[mode]:
            st.prove(f"{label}/{oblig}", False, kind="ensures", detail=detail, assume_after=False)
        return

    def cond(c):
        k = c[0]
        if k == "true":
            return True
        if k == "not":
            return ex.not_(cond(c[1]))
        if k == "and":
            return ex.bm.and_(cond(c[1]), cond(c[2]))
        if k == "len":
            return mk_bool(zint(payload.length()) == c[1])
        if k == "byte":
            return mk_bool(z3.And(zint(payload.length()) > c[1], payload.at(c[1]) == c[2]))
        if k == "kw":
            return prov.contains(ex.bm, c[1])
        if k == "kwval":
            p_ = prov.contains(ex.bm, c[1])
            if p_ is False:
                return False
            v_ = prov._entry(c[1], None)[1]
            return ex.bm.and_(p_, ex.bm.equals(v_, c[2])) if isinstance(v_, (SInt, int)) else False
        return False

    from contracts.oracle import VARIANT_RULES
    explicit = (MODES[mode], key) in VARIANT_RULES  # rules written per mode; the generic three-byte-key rule is not
    earlier = False
    for c, name in rules["payload" if prov is None else "keywords"]:
        applies = ex.bm.and_(ex.not_(earlier) if earlier is not False else True, cond(c))
        earlier = ex.bm.or_(earlier, cond(c))
        if name is not None and (name in paytabs[mode] or (explicit and any(name in t for t in paytabs))):
            st.prove(f"{label}/{oblig}", ex.not_(applies), kind="ensures",
                     detail=detail + f" although the selection rule for {name} applies", assume_after=False)


def check_variant(ex, label, mode, key, result, payload=None, prov=None):
    """the definition the real selectors returned is the one the restated selection rules prescribe"""
    from contracts.oracle import expected_definition_rules
    st = ex.st
    ids, _, paytabs = tables()
    if not (isinstance(key, bytes) and len(key) == 2 and isinstance(mode, int)):
        return
    rules = expected_definition_rules(MODES[mode], key, ids)
    tab = paytabs[mode]
    if rules is None:
        # a message with one layout per mode: the definition used is this mode's table entry under the message's name
        name = ids.get(key)
        want = tab.get(name) if name is not None else None
        if want is not None:
            st.prove(f"{label}/C02:variant", want is result, kind="ensures",
                     detail=f"{MODES[mode]} {name} is decoded / built with the {MODES[mode]} table's entry of that name "
                            f"(the selector returned {_def_name(result, mode)})", assume_after=False)
        return
    route = "payload" if payload is not None else "keywords"

    def cond(c):
        k = c[0]
        if k == "true":
            return True
        if k == "not":
            return ex.not_(cond(c[1]))
        if k == "and":
            return ex.bm.and_(cond(c[1]), cond(c[2]))
        if k == "len":
            return mk_bool(zint(payload.length()) == c[1])
        if k == "byte":
            return mk_bool(z3.And(zint(payload.length()) > c[1], payload.at(c[1]) == c[2]))
        if k == "kw":
            return prov.contains(ex.bm, c[1])
        if k == "kwval":
            p_ = prov.contains(ex.bm, c[1])
            if p_ is False:
                return False
            v_ = prov._entry(c[1], None)[1]
            return ex.bm.and_(p_, ex.bm.equals(v_, c[2])) if isinstance(v_, (SInt, int)) else False
        raise ValueError(c)

    earlier = False
    for c, name in rules[route]:
        applies = ex.bm.and_(ex.not_(earlier) if earlier is not False else True, cond(c))
        earlier = ex.bm.or_(earlier, cond(c))
        want = tab.get(name) if name is not None else None
        if want is None and name is not None:
            # GET variants defined in another table (e.g. RXM-PMP GET uses the SET definitions)
            for t in paytabs:
                if name in t:
                    want = t[name]
        if want is not result:
            # this rule must not apply on the current path
            st.prove(f"{label}/C02:variant", ex.not_(applies), kind="ensures",
                     detail=f"selection rule for {name} applies but the selector returned {_def_name(result, mode)}",
                     assume_after=False)
    return


def _after_get_dict(ex, fr, result):
    st = ex.st
    mon = st.ghost.get("monitor")
    if mon is None or not isinstance(result, dict):
        return
    obj = fr.env["self"]
    f = st.rec(obj)["fields"]
    payload = f.get("_payload")
    mode = f.get("_mode")
    cls, mid = f.get("_ubxClass"), f.get("_ubxID")
    mode_key = None
    if isinstance(cls, bytes) and isinstance(mid, bytes) and isinstance(mode, int):
        mode_key = (MODES[mode], cls + mid)
    kw = fr.env.get("kwargs")
    if isinstance(kw, KwMap) and "payload" in kw.items:
        if isinstance(payload, SBytes) and isinstance(cls, bytes) and isinstance(mid, bytes):
            check_variant(ex, mon.label, mode, cls + mid, result, payload=payload)
        mon.got_dict(ex, obj, result, payload, bool(f.get("_parsebf")), mode_key)


def install_instance(reg):
    reg.auto_loop_handler = group_loop_handler
    reg.post_hooks[M + "_get_dict"] = _after_get_dict
    reg.force_inline.update({M + "__init__", M + "_do_attributes", M + "_get_dict", M + "_set_attribute",
                             M + "_set_attribute_group", M + "_set_attribute_single", M + "_set_attribute_bitfield",
                             M + "_set_attribute_bits", M + "_set_attribute_cfgval", M + "_calc_num_repeats", M + "__setattr__", M + "identity",
                             "pyubx2.ubxhelpers.escapeall", "pyubx2.ubxhelpers.msgclass2bytes",
                             "pyubx2.ubxhelpers.msgstr2bytes", "pyubx2.ubxhelpers.key_from_val"})
    for nm in ("get_cfgtp5_dict", "get_mga_dict", "get_rxmpmreq_dict", "get_rxmpmp_dict", "get_rxmrlm_dict",
               "get_cfgnmea_dict", "get_aopstatus_dict", "get_relposned_dict", "get_timvcocal_dict",
               "get_cfgdat_dict", "get_secsig_dict", "get_alpsrv_dict"):
        reg.force_inline.add("pyubx2.ubxvariants." + nm)


def init_unit(ctx, res, col, reg, mode, key):
    """UBXMessage.__init__(cls, id, mode, parsebitfield=pbf, payload=P) for every payload P (any length), both
    bitfield views, plus the no-payload construction, for one class/ID (or the residual unknown-ID case)"""
    install_instance(reg)
    cls = msg_class()
    finfo = extract.get_function(M + "__init__")
    contract = reg.contracts[M + "__init__"]
    label = instance_label(mode, key)
    ids, classes, paytabs = tables()

    def body(ex, fres):
        st = ex.st
        ex._defaults_module = finfo.module
        # 0/1: any payload (any length), bitfields parsed / raw; 2: no payload;
        # 3/4: payload laid out according to the definition (C02's premise), bitfields parsed / raw
        variant = st.choice(7 if (key is not None and key in ids and key[0:1] in classes) else 5, "variant")
        if key is None:
            cb, ib = Base("ubxClass"), Base("ubxID")
            c_rope, i_rope = SBytes.view(cb, 0, 1), SBytes.view(ib, 0, 1)
            st.inputs["ubxClass"] = ("bytes", cb, z3.IntVal(1))
            st.inputs["ubxID"] = ("bytes", ib, z3.IntVal(1))
            known = sorted({k[0:2] for k in ids})
            st.assume(mk_bool(z3.And(*[z3.Not(z3.And(cb(0) == k[0], ib(0) == k[1])) for k in known])))
        elif key == "odd":
            # class / ID byte strings that are not one byte each (UBXReader.parse passes message[2:3], message[3:4],
            # which are empty for inputs shorter than 4 bytes; callers may pass anything)
            cb, ib = Base("ubxClass"), Base("ubxID")
            # the shapes UBXReader.parse can pass besides one byte each: message[2:3], message[3:4] of an input shorter
            # than four bytes.  (Other splits - which only direct callers of the constructor can produce - are not
            # covered: A-ODDID in the evidence.)
            shapes = [(0, 0), (1, 0)]
            shape = shapes[st.choice(len(shapes), "class-id-lengths")]
            lc, li = z3.IntVal(shape[0]), z3.IntVal(shape[1])
            c_rope, i_rope = SBytes.view(cb, 0, lc), SBytes.view(ib, 0, li)
            st.inputs["ubxClass"] = ("bytes", cb, lc)
            st.inputs["ubxID"] = ("bytes", ib, li)
        else:
            c_rope, i_rope = key[0:1], key[1:2]
        obj = ex.bm.new_object(cls)
        kwargs = {}
        pbf = True
        sub = "nopayload"
        P = None
        conforming = variant in (3, 4)
        addressing = {5: "names", 6: "ints"}.get(variant)
        if conforming and key in (b"\x06\x8b", b"\x06\x8a") and ((key == b"\x06\x8b" and mode == 0) or
                                                                   (key == b"\x06\x8a" and mode == 1)):
            raise PathEnd()  # CFG-VALGET / CFG-VALSET payloads are key/value lists: their layout is C14's subject
        if variant in (0, 1, 3, 4):
            pb = Base("payload")
            pn = z3.Int("payload_len")
            st.assume(mk_bool(pn >= 0))  # any length: payloads beyond 65535 bytes must be refused with a UBX* error
            st.inputs["payload"] = ("bytes", pb, pn)
            P = SBytes.view(pb, 0, pn)
            pbf = variant in (0, 3)
            # the documented values are True/False, the property quantifies over {0, 1}: the arbitrary-payload variants
            # pass the bools, the conforming variants the integers
            kwargs = {"payload": P, "parsebitfield": (int(pbf) if conforming else pbf)}
            sub = f"pbf={int(pbf)}" + (" conforming" if conforming else "")
        if addressing == "names":
            # only when the name is unambiguous (a name shared by two IDs is finding F-04a)
            if sum(1 for v in ids.values() if v == ids[key]) != 1:
                raise PathEnd()
            a_cls, a_id = classes[key[0:1]], ids[key]
            sub = "nopayload by-names"
        elif addressing == "ints":
            a_cls, a_id = key[0], key[1]
            sub = "nopayload by-ints"
        else:
            a_cls, a_id = c_rope, i_rope
        lab = f"{label[:-1]} {sub}]"
        mon = Monitor(lab, conforming)
        st.ghost["monitor"] = mon
        st.ghost["monitor_obj"] = obj.id
        env = {"self": obj, "ubxClass": a_cls, "ubxID": a_id, "msgmode": mode, "parsebitfield": pbf,
               "kwargs": KwMap({k: v for k, v in kwargs.items() if k != "parsebitfield"})}
        cfr = ContractFrame(finfo, env)
        entry_max = st._next_id
        snapshot_olds(ex, contract, cfr, contract.ensures + contract.ensures_exc)
        st.writes = []
        args = [obj, a_cls, a_id, mode]
        try:
            ex.call_funcinfo(finfo, args, dict(kwargs), verifying=False)
            outcome = ("return", None)
        except PyRaise as pr:
            outcome = ("raise", pr.exc)
        key_out = outcome[0] if outcome[0] == "return" else "raise:" + outcome[1].cls.__name__
        fres.outcomes[key_out] = fres.outcomes.get(key_out, 0) + 1
        # generic constructor contract (C01 / C08 / C13): ensures, raises, modifies
        # object under construction is pre-existing for the frame check: only its own fields may be written
        check_post(ex, reg, contract, finfo, cfr, outcome, lab, obj.id)
        if outcome[0] == "raise":
            mon.conforming_must_parse(ex, outcome[1])
            if conforming and mon.exp is None and P is not None and isinstance(key, bytes):
                lookup_refused(ex, lab, mode, key, P, outcome[1])
            return
        mon.finish(ex, obj)
        # inspection of the finished message must not raise (C08); serialize reproduces the frame (C01)
        inspect_message(ex, reg, obj, lab, c_rope, i_rope, P)

    from .reader_units import explore
    explore(col, reg, label, body)
    res.functions += sorted(reg.force_inline)


def inspect_message(ex, reg, obj, lab, c_rope, i_rope, P):
    st = ex.st
    cls = msg_class()
    for attr in ("identity", "length", "payload", "msgmode", "msg_cls", "msg_id"):
        try:
            ex.bm.get_attr(obj, attr)
        except PyRaise as pr:
            st.prove(f"{lab}/C08:inspect:{attr}", False, kind="raises",
                     detail=f"{attr} raises {pr.exc.cls.__name__} on a message the constructor returned", assume_after=False)
        else:
            st.prove(f"{lab}/C08:inspect:{attr}", True, kind="raises")
    for meth in ("__repr__", "serialize"):
        f = ex.bm.class_attr(cls, meth)
        try:
            r = ex.bm.call_pyfunc(f, [obj], {})
        except PyRaise as pr:
            st.prove(f"{lab}/C08:inspect:{meth}", False, kind="raises",
                     detail=f"{meth} raises {pr.exc.cls.__name__}", assume_after=False)
        else:
            st.prove(f"{lab}/C08:inspect:{meth}", True, kind="raises")


# ---------------------------------------------------------------------------------------------------------
# native replay of instance obligations
# ---------------------------------------------------------------------------------------------------------
_NAME_RE = re.compile(r"init\[(GET|SET|POLL) (unknown-id|odd-id|[0-9a-f]{4})(?: (?!pbf=|nopayload)[^\]]*?)?(?: (pbf=[01]|nopayload))?( by-names| by-ints)?( conforming)?\]/(.*)")


def replay_instance(o):
    """re-run a failed instance obligation on the real constructor with the counter-model's payload"""
    import contextlib
    import io
    from pyubx2 import UBXMessage
    import pyubx2.exceptions as ube
    from contracts.oracle import native_expected
    m = _NAME_RE.match(o.name)
    info = {"reproduced": False}
    if not m:
        info["note"] = "obligation name not understood by the instance replayer"
        return info
    mode = MODES.index(m.group(1))
    inp = o.inputs or {}
    if m.group(2) in ("unknown-id", "odd-id"):
        cls, mid = inp.get("ubxClass", b"\x00"), inp.get("ubxID", b"\x00")
    else:
        k = bytes.fromhex(m.group(2))
        cls, mid = k[0:1], k[1:2]
    variant = m.group(3) or "nopayload"
    addressing = (m.group(4) or "").strip()
    what = m.group(6)
    kwargs = {}
    if variant != "nopayload":
        kwargs = {"payload": inp.get("payload", b""), "parsebitfield": variant == "pbf=1"}
        if m.group(5):  # the conforming variants pass the integer values 0 / 1
            kwargs["parsebitfield"] = int(kwargs["parsebitfield"])
    a_cls, a_id = cls, mid
    if addressing == "by-ints":
        a_cls, a_id = cls[0], mid[0]
    elif addressing == "by-names":
        ids_, classes_, _ = tables()
        a_cls, a_id = classes_.get(cls), ids_.get(cls + mid)
    info["call"] = f"UBXMessage({a_cls!r}, {a_id!r}, {mode}, " + ", ".join(f"{k}={v!r}" for k, v in kwargs.items()) + ")"
    out = io.StringIO()
    msg = exc = None
    with contextlib.redirect_stdout(out), contextlib.redirect_stderr(out):
        try:
            msg = UBXMessage(a_cls, a_id, mode, **kwargs)
        except Exception as e:  # noqa
            exc = e
    info["observed"] = f"raised {type(exc).__name__}: {exc}"[:300] if exc else f"returned {msg!r}"[:300]
    ubx = (ube.UBXMessageError, ube.UBXTypeError, ube.UBXParseError)
    if what.startswith("raises:"):
        info["reproduced"] = exc is not None and not isinstance(exc, ubx)
    elif what == "modifies":
        info["reproduced"] = bool(out.getvalue())
        info["stdout"] = out.getvalue()[:200]
    elif what.startswith("C02:variant") and "payload" in kwargs:
        from contracts.oracle import native_expected_definition
        ids, _, paytabs = tables()
        pls = [kwargs["payload"]] + [bytes([a, b]) + bytes(n) for n in (0, 2, 10, 14, 18) for a in (0, 1, 2, 0xFF) for b in (0, 1, 0xFF)]
        for pl in pls:
            want = native_expected_definition(MODES[mode], cls + mid, ids, paytabs, payload=pl)
            try:
                got = UBXMessage(cls, mid, mode, payload=pl)._get_dict(payload=pl) if pl else None
            except Exception:  # noqa
                got = None
            if got is not None and want is not None and _def_name(got, mode) != want:
                info.update(reproduced=True, observed=f"payload {pl.hex()} is parsed with definition {_def_name(got, mode)}, the selection rules prescribe {want}")
                info["call"] = f"UBXMessage({cls!r}, {mid!r}, {mode}, payload={pl!r})"
                break
    elif what.startswith("C14:item"):
        # native witness: CFG-VALGET / VALSET payloads with documented and undocumented keys, parsed by the real code
        import random as _r
        import struct as _st
        from contracts.specs import n_cfgkey2name_spec
        import pyubx2.ubxtypes_configdb as cdb
        rnd = _r.Random(77)
        names = list(cdb.UBX_CONFIG_DATABASE)
        for _ in range(200):
            body, want, seen = b"", [], set()
            for _j in range(rnd.randrange(1, 6)):
                kid = cdb.UBX_CONFIG_DATABASE[rnd.choice(names)][0] if rnd.random() < 0.7 else \
                    ((rnd.randrange(1, 6) << 28) | rnd.randrange(1 << 24))
                if kid in seen:
                    continue
                seen.add(kid)
                try:
                    nm, typ = n_cfgkey2name_spec(kid)
                except KeyError:
                    continue
                sz = int(typ[1:4])
                vb = bytes(rnd.randrange(256) for _ in range(sz))
                body += kid.to_bytes(4, "little") + vb
                v = vb if typ[0] == "X" else (int.from_bytes(vb, "little", signed=(typ[0] == "I")) if typ[0] in "EILU"
                                             else _st.unpack("<f" if sz == 4 else "<d", vb)[0])
                want.append((nm, v))
            pl = bytes([1 if mode == 0 else 0, rnd.randrange(8), 0, 0]) + body
            try:
                mm = UBXMessage(cls, mid, mode, payload=pl)
                got = [(a, getattr(mm, a)) for a in mm.__dict__ if a.startswith("CFG_")]
            except Exception as e:  # noqa
                got = [("raised", type(e).__name__)]
            ok = len(got) == len(want) and all(a == b and (x == y or (x != x and y != y)) for (a, x), (b, y) in zip(got, want))
            if not ok:
                info.update(reproduced=True, call=f"UBXMessage({cls!r}, {mid!r}, {mode}, payload=bytes.fromhex('{pl.hex()}'))",
                            observed=f"parsed items {got[:3]!r}, the payload holds {want[:3]!r}"[:500])
                break
    elif what.startswith("C02:conforming-payload-parses"):
        info["reproduced"] = exc is not None
    elif what.startswith("C08:inspect:") and msg is not None:
        attr = what.split(":")[2]
        try:
            v = getattr(msg, attr)
            if callable(v):
                v()
        except Exception as e:  # noqa
            info["reproduced"] = True
            info["observed"] = f"{attr} raised {type(e).__name__}: {e}"
    elif what.startswith("C02:") and msg is not None and "payload" in kwargs:
        defn = msg._get_dict(**kwargs)
        want = native_expected(defn, kwargs["payload"], kwargs["parsebitfield"],
                               (MODES[mode], cls + mid))
        got = {k: v for k, v in msg.__dict__.items() if not k.startswith("_")}
        if want is not None:
            diff = {k: (got.get(k), want.get(k)) for k in set(got) | set(want) if got.get(k) != want.get(k)}
            order_ok = list(got) == [k for k in want if k in got]
            info["reproduced"] = bool(diff) or not order_ok
            info["difference"] = repr(diff)[:500]
    elif what.startswith("ensures:") and msg is not None:
        ser = msg.serialize()
        pl = kwargs.get("payload", b"")
        from contracts.specs import n_fletcher8
        body = cls + mid + len(pl).to_bytes(2, "little") + pl
        info["reproduced"] = ser != b"\xb5\x62" + body + n_fletcher8(body) or msg._mode != mode
    return info


# =========================================================================================================
# keyword mode (C03 / C04 / C15 / C17): UBXMessage(cls, id, mode, **kwargs) with a symbolic keyword map
# =========================================================================================================
DISCRIMINATORS = ("type", "version", "datumNum", "tpIdx")


class KwProvider:
    """ghost map  name -> (present, value).  Every attribute may or may not be supplied; a supplied value is of the
    field's own kind and in its range (C03's premise) unless `anyvals` lists the name (C15: arbitrary Python scalar).
    Repeated attributes are indexed families (uninterpreted functions of the index tuple)."""

    def __init__(self, ex, anyvals=()):
        self.ex = ex
        self.meta = {}  # name -> (typ, scale, width)   from the selected definition
        self.top = {}  # name -> (present SBool, value)
        self.fam = {}  # base -> (present fn, value fn)
        self.anyvals = set(anyvals)
        self.queried = []
        self.shared = {}
        self.raw_of = {}

    # -- configuration from the selected definition
    def set_definition(self, defn):
        from contracts.oracle import parse_def, Leaf, Bitfield, Group

        def put(name, m):
            if name in self.meta:
                self.shared.setdefault(name, [self.meta[name]]).append(m)  # one keyword feeds two fields
                a, b = self._range(self.meta[name][0], self.meta[name][2]), self._range(m[0], m[2])
                if (b[1] - b[0]) >= (a[1] - a[0]):
                    return  # keep the narrower range: a value both fields can represent
            self.meta[name] = m

        def walk(entries):
            for e in entries:
                if isinstance(e, Leaf):
                    put(e.name, (e.typ, e.scale, None))
                elif isinstance(e, Bitfield):
                    put(e.name, (e.typ, None, None))
                    for fn, w in e.flags:
                        put(fn, ("flag", None, w))
                else:
                    walk(e.entries)

        walk(parse_def(defn))

    def _range(self, typ, width):
        if typ == "flag":
            return 0, 1 << width
        if typ == "CH" or typ[0] not in "EILUX":
            return 0, 1 << 64
        n = int(typ[1:4])
        if typ[0] == "I":
            return -(1 << (8 * n - 1)), 1 << (8 * n - 1)
        return 0, 1 << (8 * n)

    def _fresh_value(self, name, default, idx=None):
        """symbolic supplied value of the right kind for `name`"""
        ex, st = self.ex, self.ex.st
        typ, scale, width = self.meta.get(name, (None, None, None))
        tag = name if idx is None else f"{name}_" + "_".join(str(i) for i in idx)
        if name in self.anyvals:
            # C15: an arbitrary Python scalar for this keyword
            from .values import FSort, Opaque
            k = st.choice(6, "any-kind")
            st.labels.append(f"{name}:kind{k}")
            if k == 0:
                e = z3.Int(fresh_name("kwany_" + tag))
                st.inputs["kwany_" + tag] = ("int", e)
                return SInt(e)
            if k == 1:
                return SStr((Opaque("any-text"),))
            if k == 2:
                b, ln = Base("kwanyb_" + tag), z3.Int(fresh_name("kwanyb_len"))
                st.assume(mk_bool(ln >= 0))
                return SBytes.view(b, 0, ln)
            if k == 3:
                return SFloat(z3.Const(fresh_name("kwanyf_" + tag), FSort))
            if k == 4:
                return st.alloc("list", None, items=[1, 2])
            return (1, 2)
        if typ is None:
            if name in DISCRIMINATORS:
                typ, scale, width = "U001", None, None
            else:
                return None
        if typ == "flag" or (typ[0] in "EILU" and (scale is None or scale == 1)):
            e = z3.Int(fresh_name("kw_" + tag))
            lo, hi = self._range(typ, width)
            st.assume(mk_bool(z3.And(e >= lo, e < hi)))
            st.inputs["kw_" + tag] = ("int", e)
            return SInt(e)
        if typ[0] in "EILU" and isinstance(scale, int):
            # integer scale factor: the parser reports raw * scale (an int); in range: an exact multiple whose raw fits
            r = z3.Int(fresh_name("kwraw_" + tag))
            lo, hi = self._range(typ, None)
            st.assume(mk_bool(z3.And(r >= lo, r < hi)))
            st.inputs["kwraw_" + tag] = ("int", r)
            self.raw_of.setdefault(tag, r)
            return SInt(z3.simplify(r * scale))
        if typ[0] in "EILU":
            # scaled field: the supplied value is a float (what the parser reports); in range means its raw image fits
            from .values import FSort, fdiv, fconst, f2i, i2f
            f = z3.Const(fresh_name("kwf_" + tag), FSort)
            lo, hi = self._range(typ, None)
            c = fconst(float(scale)) if not isinstance(scale, int) else i2f(z3.IntVal(scale))
            raw = f2i(fdiv(f, c))
            st.assume(mk_bool(z3.And(raw >= lo, raw < hi)))
            return SFloat(f)
        if typ == "CH":
            from .values import Opaque as _Opq
            return SStr((_Opq("kw-text-" + tag),))
        n = int(typ[1:4])
        if typ[0] in "XC":
            b = Base("kw_" + tag)
            st.inputs["kw_" + tag] = ("bytes", b, z3.IntVal(n))
            return SBytes.view(b, 0, n)
        if typ[0] == "R":
            from .values import FSort
            f = z3.Const(fresh_name("kwr_" + tag), FSort)
            if n == 4:
                from contracts.specs import FITS32
                st.assume(mk_bool(FITS32(f)))  # a value the single-precision field can hold
            return SFloat(f)
        if typ[0] == "A":
            items = []
            for i in range(n):
                e = z3.Int(fresh_name(f"kwa_{tag}_{i}"))
                st.assume(mk_bool(z3.And(e >= 0, e <= 255)))
                items.append(SInt(e))
            return st.alloc("list", None, items=items)
        return None

    def _entry(self, key, default):
        """(present, value) for a concrete name or a family member name"""
        if isinstance(key, str):
            if key not in self.top:
                v = self._fresh_value(key, default)
                p = SBool(z3.Bool(fresh_name("has_" + key))) if v is not None else False
                self.top[key] = (p, v)
            return self.top[key]
        (base, arity), idx = self.ex.bm.family_key(key)
        memo = self.fam.setdefault(base, [])
        for (i0, p, v) in memo:
            if len(i0) == len(idx) and all(_same_val(a, b) for a, b in zip(i0, idx)):
                return p, v
        v = self._fresh_value(base, default, idx=tuple("i" if not isinstance(i, int) else i for i in idx))
        p = SBool(z3.Bool(fresh_name("has_" + base))) if v is not None else False
        memo.append((idx, p, v))
        return p, v

    # -- KwMap interface
    def length(self, bm):
        e = z3.Int(fresh_name("nkwargs"))
        bm.st.assume(mk_bool(e >= 1))
        return SInt(e)

    def contains(self, bm, key):
        if key == "payload":
            return False
        p, v = self._entry(key, None)
        return p

    def get(self, bm, key, default):
        self.queried.append(key)
        if default is KeyError:
            p, v = self._entry(key, None)
            if p is False or v is None or not bm.st.branch(p):
                bm.raise_(KeyError, key)
            return v
        return self.effective(key, default)

    def effective(self, key, nominal):
        """the value the walker sees for `key`: the supplied one if present, else the nominal -- merged into ONE
        symbolic value (no path split per attribute): omitted == supplied-with-nominal at the level of values"""
        from .values import i2f, fconst, fdiv, f2i, FSort
        st = self.ex.st
        p, v = self._entry(key, nominal)
        if p is False or v is None:
            return nominal
        if isinstance(key, str) and key in self.anyvals:
            return v if st.branch(p) else nominal  # arbitrary-kind value: no merge with the nominal
        if isinstance(v, SStr):
            return v if st.branch(p) else nominal  # text: present or omitted, two paths
        memo = self.__dict__.setdefault("_eff", {})
        mk = id(v)
        if mk in memo:
            return memo[mk][1]
        pe = p.e
        if isinstance(v, SInt):
            out = mk_int(z3.If(pe, v.e, z3.IntVal(int(nominal) if isinstance(nominal, int) else 0)))
        elif isinstance(v, SFloat):
            if isinstance(nominal, float):
                nom = fconst(nominal)
                from contracts.specs import FITS32
                st.assume(mk_bool(FITS32(nom)))  # 0.0 is representable in single precision
            else:
                nom = i2f(z3.IntVal(0))
                name = key if isinstance(key, str) else self.ex.bm.family_key(key)[0][0]
                typ, scale, _ = self.meta.get(name, (None, None, None))
                if scale is not None:
                    c = fconst(float(scale)) if not isinstance(scale, int) else i2f(z3.IntVal(scale))
                    st.assume(mk_bool(f2i(fdiv(nom, c)) == 0))  # int(0 / scale) == 0
            out = SFloat(z3.If(pe, v.e, nom))
        elif isinstance(v, SBytes):
            n = v.concrete_len()
            out = SBytes.cells([z3.If(pe, v.at(k), z3.IntVal(0)) for k in range(n)])
        elif isinstance(v, Ref) and v.kind == "list":
            items = st.rec(v)["items"]
            out = st.alloc("list", None, items=[mk_int(z3.If(pe, zint(x), z3.IntVal(0))) for x in items])
        else:
            out = v
        memo[mk] = (v, out)
        return out


SELECTOR_KEYWORD = {"get_mga_dict": "type", "get_rxmpmp_dict": "version", "get_rxmpmreq_dict": "version",
                    "get_rxmrlm_dict": "type", "get_relposned_dict": "version", "get_timvcocal_dict": "type",
                    "get_cfgdat_dict": "datumNum", "get_secsig_dict": "version", "get_alpsrv_dict": "type",
                    "get_cfgtp5_dict": "tpIdx"}


def _discriminator_of(mode, key):
    """the keyword the variant selector of this class/ID inspects (arbitrary-kind value in the C15 flavour)"""
    vmod = extract.load_module("pyubx2.ubxvariants")[0]
    f = vmod.VARIANTS.get(mode, {}).get(key)
    nm = SELECTOR_KEYWORD.get(getattr(f, "__name__", ""))
    return (nm,) if nm else DISCRIMINATORS


def _kw_after_get_dict(ex, fr, result):
    prov = ex.st.ghost.get("kwprovider")
    if prov is not None and isinstance(result, dict):
        obj = fr.env["self"]
        f = ex.st.rec(obj)["fields"]
        cls, mid, mode = f.get("_ubxClass"), f.get("_ubxID"), f.get("_mode")
        if isinstance(cls, bytes) and isinstance(mid, bytes) and not prov.anyvals:
            check_variant(ex, ex.st.ghost.get("kw_label", "kwinit"), mode, cls + mid, result, prov=prov)
        prov.set_definition(result)
        ex.st.ghost["kw_pdict"] = result


def kwargs_unit(ctx, res, col, reg, mode, key, flavour="typed"):
    """keyword construction for one class/ID: every attribute possibly supplied with an in-range value of its kind.
    Obligations (C03): construction succeeds; the payload has the definition's length and every field of the built
    payload decodes (raw) to the supplied value or to the nominal value when omitted; (C04) length/checksum contract;
    (C17) SETPOLL classification of the built frame."""
    install_instance(reg)
    reg.post_hooks[M + "_get_dict"] = _kw_after_get_dict
    cls = msg_class()
    finfo = extract.get_function(M + "__init__")
    contract = reg.contracts[M + "__init__"]
    label = instance_label(mode, key).replace("init[", "kwinit[")

    def body(ex, fres):
        st = ex.st
        ex._defaults_module = finfo.module
        st.ghost["finite_floats"] = True  # non-discriminator values are typed and finite in both flavours
        prov = KwProvider(ex, anyvals=_discriminator_of(mode, key) if flavour == "anydisc" else ())
        st.ghost["kwprovider"] = prov
        st.ghost["kw_label"] = label
        obj = ex.bm.new_object(cls)
        kw = KwMap({}, sym=prov)
        env = {"self": obj, "ubxClass": key[0:1], "ubxID": key[1:2], "msgmode": mode, "parsebitfield": True, "kwargs": kw}
        cfr = ContractFrame(finfo, env)
        snapshot_olds(ex, contract, cfr, contract.ensures)
        st.writes = []
        try:
            ex.call_funcinfo(finfo, [obj, key[0:1], key[1:2], mode], {"__kwmap__": kw}, verifying=False)
            outcome = ("return", None)
        except PyRaise as pr:
            outcome = ("raise", pr.exc)
        k = outcome[0] if outcome[0] == "return" else "raise:" + outcome[1].cls.__name__
        fres.outcomes[k] = fres.outcomes.get(k, 0) + 1
        pdict = st.ghost.get("kw_pdict")
        dname = _def_name(pdict, mode)
        lab = f"{label[:-1]} {dname}]"
        if outcome[0] == "raise":
            exc = outcome[1]
            import pyubx2.exceptions as ube
            cfgval = (key == b"\x06\x8b" and mode == 0) or (key == b"\x06\x8a" and mode == 1)
            if (pdict is None or cfgval) and exc.cls is ube.UBXMessageError:
                # no definition can be selected from keywords (payload-only messages, unknown discriminator)
                st.prove(f"{lab}/C03:selector-rejects-with-UBXMessageError", True, kind="raises")
                if pdict is None and not cfgval and flavour != "anydisc":
                    # ... which it may only do when no selection rule with a definition applies to these keywords
                    lookup_refused(ex, lab, mode, key, None, exc, prov=prov, oblig="C03:in-range-values-accepted")
                return
            pl = st.rec(obj)["fields"].get("_payload")
            too_long = False
            if isinstance(pl, SBytes) and exc.cls is ube.UBXTypeError:
                too_long = mk_bool(zint(pl.length()) > 65535)  # the frame's 16-bit length field cannot hold it
            if flavour == "anydisc":
                st.prove(f"{lab}/C15:refused-with-UBX-error", exc.cls in (ube.UBXMessageError, ube.UBXTypeError), kind="raises",
                         detail=f"a bad discriminator value escapes as {exc.cls.__name__}", assume_after=False)
                return
            st.prove(f"{lab}/C03:in-range-values-accepted", too_long, kind="raises",
                     detail=f"in-range keyword values are rejected with {exc.cls.__name__} although the payload fits a frame",
                     assume_after=False)
            return
        check_post(ex, reg, contract, finfo, cfr, outcome, lab, obj.id)
        if flavour == "typed":
            check_built_payload(ex, obj, prov, pdict, lab, mode, key)
        else:
            st.prove(f"{lab}/C15:refused-with-UBX-error", True, kind="raises")

    from .reader_units import explore
    explore(col, reg, label if flavour == "typed" else label.replace("kwinit[", "kwinit-anydisc["), body)


def _def_name(pdict, mode):
    if pdict is None:
        return "no-definition"
    _, _, tabs = tables()
    for nm, d in tabs[mode].items():
        if d is pdict:
            return nm
    for t in tabs:
        for nm, d in t.items():
            if d is pdict:
                return nm
    return "?"


def check_built_payload(ex, obj, prov, pdict, lab, mode, key):
    from contracts.oracle import expected_layout, parse_def, static_size
    st = ex.st
    f = st.rec(obj)["fields"]
    P = f.get("_payload")
    P = P if isinstance(P, SBytes) else (SBytes.lit(P) if isinstance(P, (bytes, bytearray)) else None)
    if P is None or pdict is None:
        return
    if st.ghost.get("kw_symbolic_group"):
        # members of symbolic groups were checked per arbitrary iteration; top-level fields below
        pass
    try:
        exp = expected_layout(ex, pdict, P, True, (MODES[mode], key))
    except Unsupported as u:
        raise
    # every top-level field / bitfield of the built payload holds the supplied (or nominal) value
    for bf in _bitfields_of(pdict):
        _check_kw_bitfield(ex, prov, lab, bf.name, bf.flags, exp.leaves[bf.name]["raw"], lambda fn: fn, bf.name)
    for name, leaf in exp.leaves.items():
        typ, scale = leaf["typ"], leaf["scale"]
        raw = leaf["raw"]
        if typ == "flag":
            continue
        if typ != "CH" and typ[0] == "X" and _is_bitfield(pdict, name):
            continue
        if typ == "CH" or typ[0] in "RA":
            _check_kw_leaf(ex, prov, lab, name, name, leaf)  # text, floating point and array fields
            continue
        n = int(typ[1:4])
        if typ[0] in "EILU":
            eff = prov.effective(name, 0)
            if not isinstance(eff, SFloat) and isinstance(scale, int) and scale != 1:
                st.prove(f"{lab}/C03:field:{name}", ex.bm.equals(raw, mk_int(zint(eff) / scale)), kind="ensures",
                         detail=f"raw value of {name} == supplied / {scale} (supplied value is raw * scale; 0 when omitted)",
                         assume_after=False)
            elif isinstance(eff, SFloat):
                from .values import fdiv, fconst, f2i, i2f
                c = fconst(float(scale)) if not isinstance(scale, int) else i2f(z3.IntVal(scale))
                want = mk_int(f2i(fdiv(eff.e, c)))
                st.prove(f"{lab}/C03:field:{name}", ex.bm.equals(raw, want), kind="ensures",
                         detail=f"raw value of scaled {name} == int(supplied / scale) (0 when omitted) [float plumbing]",
                         assume_after=False)
            else:
                st.prove(f"{lab}/C03:field:{name}", ex.bm.equals(raw, eff), kind="ensures",
                         detail=f"{name} in the built payload == supplied value (0 when omitted)", assume_after=False)
        elif typ[0] in "XC":
            eff = prov.effective(name, bytes(n))
            ok = ex.bm.equals(raw, eff)
            st.prove(f"{lab}/C03:field:{name}", ok, kind="ensures", detail=f"bytes of {name} == supplied (zeros when omitted)",
                     assume_after=False)
    # total length (static part; symbolic groups add count * G, checked through conf of the built payload)
    for c in exp.conf:
        st.prove(f"{lab}/C03:length", c, kind="ensures", detail="built payload has exactly the length the definition implies "
                 "(group counts == the supplied size attributes)", assume_after=False)


def _is_bitfield(pdict, name):
    v = pdict.get(name)
    return isinstance(v, tuple) and isinstance(v[0], str) and re.fullmatch(r"X\d{3}", v[0]) is not None


_KW_NAME_RE = re.compile(r"kwinit\[(GET|SET|POLL) ([0-9a-f]{4}) [^\]]*\]/(.*)")


def replay_kwinit(o):
    """native confirmation of a failed keyword-mode obligation: build the message of that class/ID from in-range keyword
    values (the counter-model's where available, then seeded random ones), parse the serialization back and compare the
    supplied values with the parsed ones and the payload length with the definition's"""
    import random
    from pyubx2 import UBXMessage, UBXReader
    import pyubx2.exceptions as ube
    from contracts.oracle import parse_def, Leaf, Bitfield, Group, native_expected
    info = {"reproduced": False}
    m = _KW_NAME_RE.match(o.name)
    unit = re.match(r"kwinit\[(GET|SET|POLL):([0-9a-f]{4})\]", o.unit or "")
    if m:
        mode, key = MODES.index(m.group(1)), bytes.fromhex(m.group(2))
    elif unit:
        mode, key = MODES.index(unit.group(1)), bytes.fromhex(unit.group(2))
    else:
        info["note"] = "obligation name not understood by the keyword replayer"
        return info
    ids, _, paytabs = tables()
    rnd = random.Random(2024)
    model_kw = {k[3:]: v for k, v in (o.inputs or {}).items() if k.startswith("kw_") and isinstance(v, (int, bytes))}
    names = sorted({v for k, v in ids.items() if k[0:2] == key})
    tries = 0
    if "C02:variant" in o.name:
        from contracts.oracle import native_expected_definition, expected_definition_rules
        rules = expected_definition_rules(MODES[mode], key, ids) or {"keywords": []}
        cands = [{}]
        for c, nm in rules["keywords"]:
            if c[0] == "kw":
                cands += [{c[1]: v} for v in (0, 1, 7, 255)]
            elif c[0] == "kwval":
                cands += [{c[1]: c[2]}, {c[1]: (c[2] + 1) % 256}]
        for kw in cands:
            if not kw:
                continue
            want = native_expected_definition(MODES[mode], key, ids, paytabs, kwargs=kw)
            try:
                got = UBXMessage(key[0:1], key[1:2], mode, **kw)._get_dict(**kw)
            except Exception:  # noqa
                continue
            if want is not None and _def_name(got, mode) != want:
                info.update(reproduced=True, kwargs=repr(kw), observed=f"keywords {kw!r} select definition {_def_name(got, mode)}, the selection rules prescribe {want}")
                return info
        info["note"] = "no keyword set found natively that selects a definition other than the prescribed one"
        return info
    for attempt in range(400):
        for nm in names:
            defn = paytabs[mode].get(nm)
            if defn is None:
                continue
            ents = parse_def(defn)
            kw = {}
            scaled = {}

            def gen(entries, suffix, counts):
                for e in entries:
                    if isinstance(e, Leaf) and e.name.startswith("_HP"):
                        continue
                    if isinstance(e, Leaf) and e.typ == "CH":
                        kw[e.name + suffix] = rnd.choice(["caf\u00e9 x", "plain text", "\u20ac"])
                        continue
                    if isinstance(e, Leaf) and e.typ != "CH" and e.scale is not None and e.typ[0] in "EILU":
                        # scaled field: a value that is an exact multiple of the resolution
                        n = e.size
                        lo, hi = (-(1 << (8 * n - 1)), 1 << (8 * n - 1)) if e.typ[0] == "I" else (0, 1 << (8 * n))
                        r = rnd.choice([1, 2, 3, 10, 100, 450, rnd.randrange(lo, hi)])
                        r = max(lo, min(hi - 1, r))
                        kw[e.name + suffix] = r * e.scale
                        scaled[e.name + suffix] = (r, e.scale)
                    elif isinstance(e, Leaf) and e.typ != "CH" and e.scale is None and e.typ[0] in "EILUXC":
                        n = e.size
                        if e.typ[0] in "XC":
                            kw[e.name + suffix] = bytes(rnd.randrange(256) for _ in range(n))
                        elif e.typ[0] == "I":
                            kw[e.name + suffix] = rnd.randrange(-(1 << (8 * n - 1)), 1 << (8 * n - 1))
                        else:
                            kw[e.name + suffix] = rnd.randrange(1 << min(8 * n, 64))
                    elif isinstance(e, Bitfield):
                        for fn, w in e.flags:
                            if not fn.startswith("reserved"):
                                kw[fn + suffix] = rnd.randrange(1 << w)
                    elif isinstance(e, Group):
                        cnt = e.count if isinstance(e.count, int) else None
                        if cnt is None and isinstance(e.count, str) and e.count != "None":
                            cnt = rnd.randrange(0, 3)
                            kw[e.count] = cnt
                        for j in range(1, (cnt or 0) + 1):
                            gen(e.entries, suffix + f"_{j:02d}", counts)

            gen(ents, "", {})
            if attempt == 0:
                kw.update({k: v for k, v in model_kw.items() if k in kw})
            if len([k for k in ids if k[0:2] == key and len(k) == 3]) and "type" in kw:
                k3 = [k for k, v in ids.items() if v == nm]
                if k3 and len(k3[0]) == 3:
                    kw["type"] = k3[0][2]
            if not kw:
                continue
            try:
                from contracts.oracle import native_expected_definition as _ned
                if _ned(MODES[mode], key, ids, paytabs, kwargs=kw) not in (None, nm):
                    continue  # these keywords select another variant of the message than the one they were drawn from
            except Exception:  # noqa
                pass
            tries += 1
            try:
                msg = UBXMessage(key[0:1], key[1:2], mode, **kw)
                back = UBXReader.parse(msg.serialize(), msgmode=mode)
            except (ube.UBXMessageError, ube.UBXTypeError, ube.UBXParseError) as e:
                if "must include" in str(e) or "Unknown message type" in str(e):
                    continue
                info.update(reproduced=True, observed=f"{type(e).__name__}: {e}"[:300], kwargs=repr(kw)[:600])
                return info
            except Exception as e:  # noqa
                info.update(reproduced=True, observed=f"{type(e).__name__}: {e}"[:300], kwargs=repr(kw)[:600])
                return info
            if back.identity != msg.identity:
                continue
            bad = [k for k, v in kw.items() if k not in scaled and getattr(back, k, v) != v]
            rawvals = None
            if scaled:
                try:
                    rawvals = native_expected(msg._get_dict(**kw), msg.payload, True, (MODES[mode], key), raw=True)
                except Exception:  # noqa
                    rawvals = None
            for k, (r, sc) in scaled.items():
                if rawvals is None or k not in rawvals:
                    continue
                if abs(rawvals[k] - r) > 1:  # "to within one unit of resolution"
                    bad.append(k)
                    kw[k] = f"{kw[k]!r} (= {r} x {sc}); stored raw value {rawvals[k]}"
            if bad:
                info.update(reproduced=True, kwargs=repr(kw)[:600],
                            observed=f"{bad[0]}: supplied {kw[bad[0]]!r}, payload {msg.payload.hex()[:80]} parses to {getattr(back, bad[0], None)!r}")
                return info
    info["note"] = f"native search: {tries} keyword sets built and parsed back without a difference"
    return info
