"""
Replay of counter-models on the real code (CPython, real pyubx2 from the working tree), and native
re-validation of recorded known findings.

  python -m pvc.replay <replay.json>     re-runs a replay file and prints whether the violation reproduces
"""
from __future__ import annotations

import json
import os
import random
import sys
import time

VERIF = os.path.dirname(os.path.dirname(os.path.abspath(__file__)))
if VERIF not in sys.path:
    sys.path.insert(0, VERIF)


def jsonable(v):
    if isinstance(v, (bytes, bytearray)):
        return {"hex": bytes(v).hex()}
    if isinstance(v, dict):
        return {str(k): jsonable(x) for k, x in v.items()}
    if isinstance(v, (list, tuple)):
        return [jsonable(x) for x in v]
    if isinstance(v, (int, float, str, bool)) or v is None:
        return v
    return repr(v)


def unjson(v):
    if isinstance(v, dict):
        if set(v.keys()) == {"hex"}:
            return bytes.fromhex(v["hex"])
        return {k: unjson(x) for k, x in v.items()}
    if isinstance(v, list):
        return [unjson(x) for x in v]
    return v


def _registry():
    from pvc.units import Ctx
    return Ctx().registry()


def native_args(contract, finfo, inputs):
    """actual arguments for the real function from decoded model inputs"""
    a = finfo.node.args
    names = [x.arg for x in a.posonlyargs + a.args] + [x.arg for x in a.kwonlyargs]
    args = []
    env = {}
    for nm in names:
        kind = contract.params.get(nm)
        v = inputs.get(nm)
        if callable(kind) and hasattr(kind, "native"):
            v = kind.native(v)
        elif isinstance(kind, tuple) and kind[0] == "const":
            v = kind[1]
        elif kind == "boolint":
            v = int(v or 0)
        elif kind == "float" and isinstance(v, dict):
            v = 0.0
        args.append(v)
        env[nm] = v
    kw = {}
    spec = contract.params.get("**")
    if spec is not None and hasattr(spec, "native"):
        kw = spec.native(inputs)
        env["kwargs"] = kw
    return names, args, kw, env


def run_contract_natively(reg, contract, inputs):
    from pvc import extract, native
    finfo = extract.get_function(contract.qualname)
    fobj = native.resolve(contract.qualname)
    names, args, kw, env = native_args(contract, finfo, inputs)
    if finfo.is_property:
        call = lambda: fobj.fget(args[0])  # noqa: E731
    else:
        call = lambda: fobj(*args, **kw)  # noqa: E731
    return native.check_contract_natively(reg, contract, call, env, finfo.module)


def mutate_inputs(inputs, rnd):
    out = {}
    for k, v in inputs.items():
        if isinstance(v, bytes):
            b = bytearray(v)
            r = rnd.random()
            if b and r < 0.4:
                b[rnd.randrange(len(b))] = rnd.randrange(256)
            elif r < 0.6:
                b = b[:rnd.randrange(len(b) + 1)]
            elif r < 0.8:
                b.insert(rnd.randrange(len(b) + 1), rnd.randrange(256))
            out[k] = bytes(b)
        elif isinstance(v, bool):
            out[k] = v if rnd.random() < 0.8 else (not v)
        elif isinstance(v, int):
            out[k] = v + rnd.choice([0, 0, 0, 1, -1, 255, 256, -256])
        else:
            out[k] = v
    return out


def random_inputs(contract, rnd):
    """seed inputs for the native search when the solver produced no model"""
    out = {}
    for nm, kind in contract.params.items():
        if kind in ("bytes", "bytearray"):
            out[nm] = bytes(rnd.randrange(256) for _ in range(rnd.choice([0, 1, 2, 4, 8, 8, 12, 20])))
        elif isinstance(kind, tuple) and kind[0] == "bytesn":
            out[nm] = bytes(rnd.randrange(256) for _ in range(kind[1]))
        elif kind in ("int", "nat", "byte", "u16", "boolint"):
            out[nm] = rnd.choice([0, 1, 2, 3, 7, 8, 255, 256, 65535, 65536, -1, rnd.randrange(1 << 32)])
            if kind in ("nat", "byte", "u16", "boolint"):
                out[nm] = abs(out[nm]) % {"nat": 1 << 16, "byte": 256, "u16": 65536, "boolint": 2}[kind]
        elif kind == "bool":
            out[nm] = rnd.random() < 0.5
        elif isinstance(kind, tuple) and kind[0] == "const":
            out[nm] = kind[1]
        elif isinstance(kind, tuple) and kind[0] == "bytelist":
            out[nm] = [rnd.randrange(256) for _ in range(kind[1])]
        else:
            return None
    return out


def replay_obligation(prop, o, plan):
    """returns the replay record written to /verif/replays/<prop>/..."""
    info = {
        "property": prop,
        "obligation": o.name,
        "unit": o.unit,
        "kind": o.kind,
        "clause": o.detail,
        "solver": {"status": o.status, "backend": o.backend, "time_s": round(o.time, 4)},
        "inputs": jsonable(o.inputs),
        "path": o.path,
        "reproduced": False,
    }
    try:
        handler = plan.replayers.get(o.unit)
        if handler is not None:
            info.update(handler(o))
            return info
        if o.kind in ("ground", "bounded"):
            # closed check evaluated on the real tables / real code: the failed evaluation *is* the replay
            info["reproduced"] = True
            info["observed"] = o.detail
            return info
        fac = getattr(plan, "unit_factories", {}).get(o.unit)
        if fac is not None:
            import importlib
            contract = getattr(importlib.import_module(fac[0]), fac[1])(fac[2])
            reg = _registry()
            info["function"] = contract.qualname
            info["factory"] = list(map(repr, fac))
            cands = [o.inputs or {}] + [{}]
            for pn, kind in contract.params.items():
                for v in getattr(kind, "native_candidates", []):
                    cands.append({**(o.inputs or {}), pn: v})
            for cand in cands:
                try:
                    vio, observed = run_contract_natively(reg, contract, dict(cand))
                except Exception as e:  # noqa
                    vio, observed = None, f"replay error {type(e).__name__}: {e}"
                info["observed"] = observed
                if vio:
                    info["reproduced"] = True
                    info["violated_clauses"] = vio
                    return info
            info["note"] = "model and default sample of this value kind did not reproduce natively"
            return info
        target = plan.unit_contracts.get(o.unit)
        if target is not None and o.inputs is None:
            o.inputs = {}
        if target is None or "__decode_error__" in (o.inputs or {}):
            info["note"] = "no native replay available for this obligation; verifier output attached"
            return info
        reg = _registry()
        qn, member = target
        contract = reg.families[qn][1][member] if member is not None else reg.contracts[qn]
        info["function"] = qn if member is None else f"{qn}[{member}]"
        rnd = random.Random(12345)
        if not o.inputs:
            o.inputs = random_inputs(contract, rnd)
            if o.inputs is None:
                info["note"] = "no model and no input generator for this contract's parameters"
                return info
            info["inputs"] = jsonable(o.inputs)
        vio, observed = run_contract_natively(reg, contract, o.inputs)
        info["observed"] = observed
        if vio:
            info["reproduced"] = True
            info["violated_clauses"] = vio
            return info
        # not reproduced with the model itself (e.g. counterexample to induction): search around it
        t0 = time.time()
        tries = 0
        while time.time() - t0 < 5.0:
            tries += 1
            cand = mutate_inputs(o.inputs, rnd) if rnd.random() < 0.7 else (random_inputs(contract, rnd) or o.inputs)
            vio, observed = run_contract_natively(reg, contract, cand)
            if vio:
                info["reproduced"] = True
                info["violated_clauses"] = vio
                info["inputs"] = jsonable(cand)
                info["observed"] = observed
                info["note"] = f"model did not replay directly; failing input found by native search ({tries} tries)"
                return info
        info["note"] = f"model did not replay and native search ({tries} tries) found no failing input"
    except Exception as e:  # replay must not crash the check
        info["note"] = f"replay error: {type(e).__name__}: {e}"
    return info


def validate_known(k):
    """re-run the recorded witness of a known finding on the real code.  True = still fails as recorded."""
    w = k.get("witness")
    if not w or "python" not in w:
        return None, "no executable witness recorded"
    env = {}
    try:
        exec("import pyubx2\nfrom pyubx2 import *\nimport pyubx2.ubxhelpers as ubxhelpers\n"
             "from pyubx2.ubxhelpers import *\nimport io, struct\n"
             "def raises(exc, fn):\n"
             "    try:\n        fn()\n    except exc:\n        return True\n    except Exception:\n        return False\n    return False\n", env)
        res = eval(w["python"], env)
        return bool(res), "witness re-run: defect present" if res else "witness re-run: defect absent"
    except Exception as e:
        return None, f"witness raised {type(e).__name__}: {e}"


def main():
    path = sys.argv[1]
    with open(path) as f:
        info = json.load(f)
    print(json.dumps({k: info.get(k) for k in ("property", "obligation", "function", "inputs", "observed",
                                               "violated_clauses", "reproduced", "note")}, indent=1))
    if info.get("function") and info.get("inputs") is not None:
        reg = _registry()
        fn = info["function"]
        if "[" in fn:
            qn, member = fn[:-1].split("[")
            contract = reg.families[qn][1][member]
        else:
            contract = reg.contracts[fn]
        vio, observed = run_contract_natively(reg, contract, unjson(info["inputs"]))
        print("re-run on the current tree:", observed)
        print("violated clauses:", vio)
        return 1 if vio else 0
    return 0


if __name__ == "__main__":
    sys.exit(main())
