"""
Models of the CPython built-ins and value operations the subset needs (DESIGN.md 2.4).
These models are the trusted part of the encoding (assumption A-PY4); they are differentially
tested against CPython on every run (difftest.py).
"""
from __future__ import annotations

import ast
import builtins as _bi
import inspect
import math
import struct
import types

import z3

from .values import (Sym, SInt, SBool, SBytes, SStr, SFloat, Ref, ExcVal, Fmt, Opaque, Unsupported,
                     zint, zbool, mk_int, mk_bool, mk_str, to_rope, is_byteslike, as_const_int,
                     zadd, zsub, zmax, zmin, fresh_name, Base, LitSeg, CellSeg, ViewSeg,
                     i2f, fmul, fdiv, fadd, fround, f2i, fconst, unpack_f, FSort, IntS)
from .state import PathEnd


def _exec():
    from . import exec as ex
    return ex


class BoundMethod:
    __slots__ = ("recv", "fobj", "name")

    def __init__(self, recv, fobj, name):
        self.recv = recv
        self.fobj = fobj
        self.name = name


class HexOf:
    """piece of an SStr: bytes.hex() of a rope"""
    __slots__ = ("rope",)

    def __init__(self, rope):
        self.rope = rope


class KwMap:
    """**kwargs value: concrete names -> values; optionally a symbolic keyword map (kwargs mode)"""

    def __init__(self, items, sym=None):
        self.items = dict(items)
        self.sym = sym  # object with present(name)->cond, value(name, default_thunk)


READONLY_MUTATORS = {"append", "extend", "insert", "remove", "pop", "clear", "sort", "reverse", "update",
                     "setdefault", "popitem", "__setitem__", "__delitem__"}


class Models:
    def __init__(self, ex):
        self.ex = ex
        from .loops import Loops
        self.loops = Loops(ex, self)
        self.table = self._build_table()

    @property
    def st(self):
        return self.ex.st

    def raise_(self, cls, *args):
        E = _exec()
        raise E.PyRaise(ExcVal(cls, args))

    # ------------------------------------------------------------------ classification
    def pytype(self, v):
        """the Python type of a value, as a real class (for isinstance)"""
        if hasattr(v, "seq") and hasattr(v, "k") and type(v).__name__ == "SymKey":
            return str
        if isinstance(v, SInt):
            return bool if v.isbool else int
        if isinstance(v, SBool):
            return bool
        if isinstance(v, SBytes):
            return bytearray if v.kind == "bytearray" else bytes
        if isinstance(v, SStr):
            return str
        if isinstance(v, SFloat):
            return float
        if isinstance(v, Ref):
            if v.kind == "list":
                return list
            if v.kind == "dict":
                return dict
            if v.kind == "tuple":
                return tuple
            return v.cls
        if isinstance(v, ExcVal):
            return v.cls
        if isinstance(v, KwMap):
            return dict
        return type(v)

    def truth(self, v):
        if isinstance(v, SBool):
            return v
        if isinstance(v, SInt):
            return mk_bool(v.e != 0)
        if isinstance(v, SBytes):
            n = v.length()
            return (n != 0) if isinstance(n, int) else mk_bool(n != 0)
        if isinstance(v, SStr):
            if any(isinstance(p, (str, Fmt)) for p in v.pieces):
                return True
            # a string the engine knows nothing about: empty or not, the same answer every time it is asked on a path
            memo = self.st.ghost.setdefault("opaque_truth", {})
            key = id(v.pieces[0]) if v.pieces else 0
            if key not in memo:
                memo[key] = (SBool(z3.Bool(fresh_name("nonempty_str"))), v)
            return memo[key][0]
        if isinstance(v, SFloat):
            from .values import fconst
            return mk_bool(z3.And(v.e != fconst(0.0), v.e != fconst(-0.0)))
        if isinstance(v, Ref):
            if v.kind in ("list", "tuple"):
                return len(self.st.rec(v)["items"]) != 0
            if v.kind == "dict":
                return len(self.st.rec(v)["items"]) != 0
            if v.kind == "obj" and getattr(v.cls, "truth_unknown", False):
                # an object supplied by the caller: bool(obj) is whatever its class says (__bool__ / __len__)
                memo = self.st.ghost.setdefault("obj_truth", {})
                if v.id not in memo:
                    memo[v.id] = SBool(z3.Bool(fresh_name("truthy_obj")))
                return memo[v.id]
            return True
        if isinstance(v, KwMap):
            return self.kw_len(v) != 0
        if isinstance(v, (ExcVal, BoundMethod)):
            return True
        return bool(v)

    # ------------------------------------------------------------------ arithmetic
    def binop(self, op, l, r, inplace=False):
        if not isinstance(l, (Sym, Ref)) and not isinstance(r, (Sym, Ref)):
            return self.native_binop(op, l, r)
        # bytes / str / list concatenation, repetition
        if op is ast.Add:
            if is_byteslike(l) and is_byteslike(r):
                kind = "bytearray" if (isinstance(l, bytearray) or (isinstance(l, SBytes) and l.kind == "bytearray")) else "bytes"
                res = to_rope(l).concat(to_rope(r))
                return SBytes(res.segs, kind)
            if isinstance(l, (str, SStr)) and isinstance(r, (str, SStr)):
                lp = l.pieces if isinstance(l, SStr) else (l,)
                rp = r.pieces if isinstance(r, SStr) else (r,)
                return mk_str(lp + rp)
            if isinstance(l, Ref) and l.kind == "list" and isinstance(r, Ref) and r.kind == "list":
                items = list(self.st.rec(l)["items"]) + list(self.st.rec(r)["items"])
                if inplace:
                    self.st.rec(l)["items"] = items
                    return l
                return self.st.alloc("list", None, items=items)
            if (is_byteslike(l) or isinstance(l, (str, SStr))) != (is_byteslike(r) or isinstance(r, (str, SStr))) \
                    and not (self.is_num(l) and self.is_num(r)):
                self.raise_(TypeError, "unsupported operand type(s) for +")
        if op is ast.Mult:
            if isinstance(l, (bytes, str, list)) and isinstance(r, SInt) or isinstance(r, (bytes, str, list)) and isinstance(l, SInt):
                raise Unsupported("sequence repetition by symbolic count")
            if isinstance(l, Ref) and l.kind == "list" and isinstance(r, int):
                return self.st.alloc("list", None, items=list(self.st.rec(l)["items"]) * r)
        if self.is_int(l) and self.is_int(r):
            return self.int_binop(op, l, r)
        if self.is_num(l) and self.is_num(r):
            return self.float_binop(op, l, r)
        self.raise_(TypeError, f"unsupported operand type(s) for {op.__name__}: "
                               f"{self.pytype(l).__name__} and {self.pytype(r).__name__}")

    def native_binop(self, op, l, r):
        import operator as o
        f = {ast.Add: o.add, ast.Sub: o.sub, ast.Mult: o.mul, ast.Div: o.truediv, ast.FloorDiv: o.floordiv,
             ast.Mod: o.mod, ast.Pow: o.pow, ast.LShift: o.lshift, ast.RShift: o.rshift, ast.BitOr: o.or_,
             ast.BitAnd: o.and_, ast.BitXor: o.xor}.get(op)
        if f is None:
            raise Unsupported(f"operator {op.__name__}")
        if isinstance(l, (dict, list, set)) and not isinstance(l, KwMap):
            pass
        try:
            return f(l, r)
        except Exception as e:  # the analysed program's exception
            self.raise_(type(e), str(e))

    def is_int(self, v):
        return isinstance(v, (SInt, SBool)) or (isinstance(v, int))

    def is_num(self, v):
        return self.is_int(v) or isinstance(v, (float, SFloat))

    def int_binop(self, op, l, r):
        a, b = zint(l), zint(r)
        if op is ast.Add:
            return mk_int(a + b)
        if op is ast.Sub:
            return mk_int(a - b)
        if op is ast.Mult:
            return mk_int(a * b)
        if op in (ast.FloorDiv, ast.Mod):
            cb = as_const_int(b)
            if cb is None:
                # symbolic divisor: exact for positive divisors, which we must prove
                if not self.st.must(b > 0):
                    if self.st.branch(mk_bool(b == 0)):
                        self.raise_(ZeroDivisionError, "integer division or modulo by zero")
                    if not self.st.must(b > 0):
                        raise Unsupported("floor division by possibly negative symbolic divisor")
                return mk_int(a / b) if op is ast.FloorDiv else mk_int(a % b)
            if cb == 0:
                self.raise_(ZeroDivisionError, "integer division or modulo by zero")
            if cb < 0:
                raise Unsupported("division by negative constant")
            return mk_int(a / b) if op is ast.FloorDiv else mk_int(a % b)
        if op is ast.Div:
            if self.st.branch(mk_bool(b == 0)):
                self.raise_(ZeroDivisionError, "division by zero")
            return SFloat(fdiv(i2f(a), i2f(b)), shape=("idiv", a, b))
        if op is ast.LShift:
            cb = as_const_int(b)
            if cb is None:
                return self.sym_shift(a, b, left=True)
            if cb < 0:
                self.raise_(ValueError, "negative shift count")
            return mk_int(a * (1 << cb))
        if op is ast.RShift:
            cb = as_const_int(b)
            if cb is None:
                return self.sym_shift(a, b, left=False)
            if cb < 0:
                self.raise_(ValueError, "negative shift count")
            return mk_int(a / (1 << cb))
        if op is ast.BitAnd:
            return self.bitand(a, b)
        if op is ast.BitOr:
            return self.bitor(a, b)
        if op is ast.Pow:
            ca, cb = as_const_int(a), as_const_int(b)
            if ca is not None and cb is not None:
                return ca ** cb
            if ca == 2 and cb is None:
                return SInt(self.pow2(b))
            raise Unsupported("symbolic power")
        raise Unsupported(f"int operator {op.__name__}")

    POW2 = z3.Function("pow2", IntS, IntS)

    def pow2(self, e):
        """2**e for symbolic e >= 0: uninterpreted with ground facts for 0..64 and monotonic step axioms on use"""
        t = self.POW2(e)
        # local facts: exact value by case split over 0..64 (all shift amounts in this code base are < 64)
        self.st.assume_raw(z3.Implies(z3.And(e >= 0, e <= 64),
                                      z3.Or(*[z3.And(e == i, t == (1 << i)) for i in range(65)])))
        self.st.assume_raw(z3.Implies(e > 64, t > (1 << 64)))
        return t

    def sym_shift(self, a, b, left):
        if self.st.branch(mk_bool(b < 0)):
            self.raise_(ValueError, "negative shift count")
        p = self.pow2(b)
        if left:
            return mk_int(a * p)
        return mk_int(a / p)

    def bits_bound(self, a):
        """smallest k in a few candidates with pc => 0 <= a < 2^k, else None"""
        for k in (8, 64):
            if self.st.must(z3.And(a >= 0, a < (1 << k))):
                return k
        return None

    def bitand(self, a, b):
        ca, cb = as_const_int(a), as_const_int(b)
        if ca is not None and cb is not None:
            return ca & cb
        if ca is not None and cb is None:
            a, b, ca, cb = b, a, cb, ca
        if cb is not None:
            if cb >= 0:
                if cb & (cb + 1) == 0:  # 2^k - 1
                    return mk_int(a % (cb + 1))
                # a mask that keeps most bits of a bounded operand: a & m == a - (a & ~m) with few complement bits
                for W in (8, 16, 32, 64):
                    if cb < (1 << W) and bin(((1 << W) - 1) & ~cb).count("1") < bin(cb).count("1") \
                            and self.st.must(z3.And(a >= 0, a < (1 << W))):
                        comp = ((1 << W) - 1) & ~cb
                        terms = [((a / (1 << i)) % 2) * (1 << i) for i in range(W) if comp >> i & 1]
                        return mk_int(a - z3.Sum(terms)) if terms else mk_int(a)
                # general non-negative mask: sum of selected bits
                terms = []
                i = 0
                m = cb
                while m:
                    if m & 1:
                        terms.append(((a / (1 << i)) % 2) * (1 << i))
                    m >>= 1
                    i += 1
                return mk_int(z3.Sum(terms))
            inv = ~cb  # cb negative: a & ~inv = a - (a & inv)
            if inv & (inv + 1) == 0:
                return mk_int(a - a % (inv + 1))
            low = self.bitand(a, z3.IntVal(inv))
            return mk_int(a - zint(low))
        # both symbolic: a & (2^k-1)-like masks are not recognisable; bitwise via bounded widths
        ka, kb = self.bits_bound(a), self.bits_bound(b)
        if ka is not None and kb is not None:
            k = min(ka, kb)
            return mk_int(z3.Sum([z3.If(z3.And((a / (1 << i)) % 2 == 1, (b / (1 << i)) % 2 == 1), 1 << i, 0)
                                  for i in range(k)]))
        raise Unsupported("bitand of two unbounded symbolic ints")

    def bitor(self, a, b):
        ca, cb = as_const_int(a), as_const_int(b)
        if ca is not None and cb is not None:
            return ca | cb
        if ca == 0:
            return mk_int(b)
        if cb == 0:
            return mk_int(a)
        # y syntactically x' * 2^k (a shifted operand): disjoint iff 0 <= x < 2^k
        for x, y in ((a, b), (b, a)):
            k = _pow2_factor(y)
            if k is not None and self.st.must(z3.And(x >= 0, x < (1 << k), y >= 0)):
                return mk_int(x + y)
        ka, kb = self.bits_bound(a), self.bits_bound(b)
        if ka is not None and kb is not None and max(ka, kb) <= 8:
            k = max(ka, kb)
            return mk_int(z3.Sum([z3.If(z3.Or((a / (1 << i)) % 2 == 1, (b / (1 << i)) % 2 == 1), 1 << i, 0)
                                  for i in range(k)]))
        # operands not provably disjoint and wider than a byte: uninterpreted result with the sound bounds only
        # (bit-blasting wide ORs makes the VCs intractable; counter-models are confirmed by native replay)
        r = z3.Int(fresh_name("bor"))
        self.st.assume(mk_bool(z3.Implies(z3.And(a >= 0, b >= 0),
                                          z3.And(r >= a, r >= b, r <= a + b))))
        self.st.ghost.setdefault("imprecise", []).append("bitor")
        return SInt(r)

    def float_binop(self, op, l, r):
        def tof(v):
            if isinstance(v, SFloat):
                return v.e
            if isinstance(v, float):
                return fconst(v)
            if isinstance(v, (int,)) and not isinstance(v, Sym):
                return fconst(float(v))
            return i2f(zint(v))

        a, b = tof(l), tof(r)
        if op is ast.Mult:
            return SFloat(fmul(a, b), shape=("mul", l, r))
        if op is ast.Div:
            # division by a concrete non-zero constant cannot raise; symbolic divisor may
            if isinstance(r, (int, float)) and not isinstance(r, Sym):
                if r == 0:
                    self.raise_(ZeroDivisionError, "float division by zero")
            elif isinstance(r, (SInt, SBool)):
                if self.st.branch(mk_bool(zint(r) == 0)):
                    self.raise_(ZeroDivisionError, "division by zero")
            else:
                if self.st.choice(2, "fdiv-zero") == 0:
                    self.raise_(ZeroDivisionError, "float division by zero")
            return SFloat(fdiv(a, b), shape=("div", l, r))
        if op is ast.Add:
            return SFloat(fadd(a, b), shape=("add", l, r))
        if op is ast.Sub:
            raise Unsupported("float subtraction")
        if op in (ast.LShift, ast.RShift, ast.BitAnd, ast.BitOr, ast.BitXor):
            # CPython: bitwise and shift operators are not defined for float
            self.raise_(TypeError, f"unsupported operand type(s) for {op.__name__}: float")
        raise Unsupported(f"float operator {op.__name__}")

    def unaryop(self, op, v, fr):
        if not isinstance(v, (Sym, Ref)):
            if op is ast.Not:
                return not self.truth(v)
            if op is ast.USub:
                return -v
            if op is ast.Invert:
                return ~v
            if op is ast.UAdd:
                return +v
        if op is ast.Not:
            t = self.truth(v)
            if isinstance(t, SBool):
                return mk_bool(z3.Not(t.e))
            return not t
        if self.is_int(v):
            a = zint(v)
            if op is ast.USub:
                return mk_int(-a)
            if op is ast.Invert:
                return mk_int(-a - 1)
            if op is ast.UAdd:
                return mk_int(a)
        raise Unsupported(f"unary {op.__name__} on {type(v).__name__}")

    # ------------------------------------------------------------------ comparison
    def compare(self, op, l, r, fr=None):
        if op in (ast.Is, ast.IsNot):
            res = self.identical(l, r)
            return res if op is ast.Is else (not res)
        if op in (ast.In, ast.NotIn):
            res = self.contains(r, l)
            if op is ast.NotIn:
                return self.ex.not_(res)
            return res
        if op in (ast.Eq, ast.NotEq):
            res = self.equals(l, r)
            if op is ast.NotEq:
                return self.ex.not_(res)
            return res
        # ordering
        if self.is_int(l) and self.is_int(r):
            if not isinstance(l, Sym) and not isinstance(r, Sym):
                return {ast.Lt: l < r, ast.LtE: l <= r, ast.Gt: l > r, ast.GtE: l >= r}[op]
            a, b = zint(l), zint(r)
            return mk_bool({ast.Lt: a < b, ast.LtE: a <= b, ast.Gt: a > b, ast.GtE: a >= b}[op])
        if not is_symv(l) and not is_symv(r):
            try:
                return {ast.Lt: lambda: l < r, ast.LtE: lambda: l <= r, ast.Gt: lambda: l > r,
                        ast.GtE: lambda: l >= r}[op]()
            except TypeError as e:
                self.raise_(TypeError, str(e))
        if self.is_num(l) and self.is_num(r):
            # ordering involving an opaque float: unknown outcome (sound over-approximation; covers NaN as well)
            return SBool(z3.Bool(fresh_name("fcmp")))
        self.raise_(TypeError, f"'{op.__name__}' not supported between instances of "
                               f"'{self.pytype(l).__name__}' and '{self.pytype(r).__name__}'")

    def identical(self, l, r):
        if l is None or r is None:
            return (l is None) and (r is None)
        if isinstance(l, Ref) and isinstance(r, Ref):
            return l.id == r.id
        if isinstance(l, (Sym, Ref)) or isinstance(r, (Sym, Ref)):
            if isinstance(l, bool) or isinstance(r, bool):
                # `x is True`
                raise Unsupported("identity test with symbolic operand")
            return False if (l is None or r is None) else self._unsupp("identity test on symbolic values")
        return l is r

    def _unsupp(self, msg):
        raise Unsupported(msg)

    def equals(self, l, r):
        """Python == ; returns bool or SBool"""
        if not is_symv(l) and not is_symv(r) and deep_concrete(l) and deep_concrete(r):
            if isinstance(l, ExcVal) or isinstance(r, ExcVal):
                return l is r
            return l == r
        if l is None or r is None:
            return False
        if self.is_int(l) and self.is_int(r):
            return mk_bool(zint(l) == zint(r))
        if is_byteslike(l) and is_byteslike(r):
            return self.rope_eq(to_rope(l), to_rope(r))
        if is_byteslike(l) != is_byteslike(r):
            if isinstance(l, (tuple,)) or isinstance(r, (tuple,)):
                return False
            if self.is_num(l) or self.is_num(r) or isinstance(l, (str, SStr)) or isinstance(r, (str, SStr)):
                return False
        if isinstance(l, (str, SStr)) and isinstance(r, (str, SStr)):
            return self.str_eq(l, r)
        if isinstance(l, (str, SStr)) != isinstance(r, (str, SStr)):
            return False
        if isinstance(l, tuple) and isinstance(r, tuple):
            if len(l) != len(r):
                return False
            acc = True
            for x, y in zip(l, r):
                c = self.equals(x, y)
                acc = self.and_(acc, c)
            return acc
        if isinstance(l, Ref) and isinstance(r, Ref):
            if l.id == r.id:
                return True
            if l.kind == r.kind == "list":
                a, b = self.st.rec(l)["items"], self.st.rec(r)["items"]
                if len(a) != len(b):
                    return False
                acc = True
                for x, y in zip(a, b):
                    acc = self.and_(acc, self.equals(x, y))
                return acc
            return False
        if isinstance(l, Ref) and l.kind == "list" and isinstance(r, list):
            return self.equals(l, self.st.alloc("list", None, items=list(r)))
        if isinstance(r, Ref) and r.kind == "list" and isinstance(l, list):
            return self.equals(self.st.alloc("list", None, items=list(l)), r)
        if isinstance(l, SFloat) and isinstance(r, SFloat):
            if l.e.eq(r.e):
                return True
            return mk_bool(l.e == r.e)  # uninterpreted equality (NaN != NaN not modelled: plumbing only)
        if isinstance(l, SFloat) or isinstance(r, SFloat):
            other = r if isinstance(l, SFloat) else l
            sf = l if isinstance(l, SFloat) else r
            if isinstance(other, float):
                return mk_bool(sf.e == fconst(other))
            if self.is_int(other):
                return mk_bool(sf.e == i2f(zint(other)))
            return False
        if type(l) is not type(r) and not (isinstance(l, Sym) and isinstance(r, Sym)):
            return False
        raise Unsupported(f"== between {type(l).__name__} and {type(r).__name__}")

    def and_(self, a, b):
        if a is True:
            return b
        if b is True:
            return a
        if a is False or b is False:
            return False
        return mk_bool(z3.And(zbool(a), zbool(b)))

    def or_(self, a, b):
        if a is False:
            return b
        if b is False:
            return a
        if a is True or b is True:
            return True
        return mk_bool(z3.Or(zbool(a), zbool(b)))

    def rope_eq(self, a, b):
        if a.key() == b.key():
            return True
        la, lb = a.length(), b.length()
        ca, cb = a.concrete_len(), b.concrete_len()
        if ca is not None and cb is not None:
            if ca != cb:
                return False
            if ca <= 80:
                conj = [a.at(k) == b.at(k) for k in range(ca)]
                return mk_bool(z3.And(*conj)) if conj else True
        if ca is not None and ca <= 80:
            conj = [zint(lb) == ca] + [b.at(k) == a.at(k) for k in range(ca)]
            return mk_bool(z3.And(*conj))
        if cb is not None and cb <= 80:
            conj = [zint(la) == cb] + [a.at(k) == b.at(k) for k in range(cb)]
            return mk_bool(z3.And(*conj))
        # peel a concrete-length tail (appended fields) and compare it cell by cell; compare the rest recursively
        for x, y in ((a, b), (b, a)):
            t = 0
            nseg = 0
            for sg in reversed(x.segs):
                if isinstance(sg, (LitSeg, CellSeg)):
                    t += sg.length()
                    nseg += 1
                elif isinstance(sg, ViewSeg) and isinstance(sg.len, int):
                    t += sg.len
                    nseg += 1
                else:
                    break
            if 0 < t <= 80 and nseg < len(x.segs) and len(y.segs) == 1 and isinstance(y.segs[0], ViewSeg):
                ly = zint(y.length())
                tail = SBytes(x.segs[len(x.segs) - nseg:])
                conj = [ly >= t] + [tail.at(j) == y.at(z3.simplify(ly - t + j)) for j in range(t)]
                rest = self.rope_eq(SBytes(x.segs[:len(x.segs) - nseg]), y.slice(0, z3.simplify(ly - t)))
                return self.and_(mk_bool(z3.And(*conj)), rest)
        suff = None
        if len(a.segs) == 1 and len(b.segs) == 1 and isinstance(a.segs[0], ViewSeg) and isinstance(b.segs[0], ViewSeg) \
                and a.segs[0].base is b.segs[0].base:
            # same array, same window: sufficient for equality (used as an extra disjunct of the proxy below)
            suff = z3.And(zint(a.segs[0].start) == zint(b.segs[0].start), zint(la) == zint(lb))
        # general case: proxy with Skolemised disequality (sound for refutation of the negation, i.e. as a goal);
        # as a hypothesis it only yields the length equation plus instances at known index terms.
        p = z3.Bool(fresh_name("ropeeq"))
        kap = self.st.skolem("kap")
        inst = [z3.Implies(z3.And(t >= 0, t < zint(la)), a.at(t) == b.at(t)) for t in self.st.skolems]
        self.st.assume(mk_bool(z3.Implies(p, z3.And(zint(la) == zint(lb), *inst))))
        self.st.assume(mk_bool(z3.Implies(z3.Not(p), z3.Or(zint(la) != zint(lb),
                                                            z3.And(kap >= 0, kap < zint(la), a.at(kap) != b.at(kap))))))
        self.st.ghost.setdefault("ropeeq", []).append((p, a, b))
        if suff is not None:
            return mk_bool(z3.Or(suff, p))
        return SBool(p)

    def str_eq(self, l, r):
        if isinstance(l, str) and isinstance(r, str):
            return l == r
        from .values import TextOf
        if isinstance(l, SStr) and isinstance(r, SStr) and len(l.pieces) == 1 and len(r.pieces) == 1 \
                and isinstance(l.pieces[0], TextOf) and isinstance(r.pieces[0], TextOf):
            a, b = l.pieces[0], r.pieces[0]
            if (a.codec, a.errors) != (b.codec, b.errors):
                return False  # different decoders: equality of the texts is not a consequence of anything known
            return self.rope_eq(a.rope, b.rope)  # same decoder: equal bytes give equal text
        m = self.str_match(l, r)
        if m is False:
            return False
        if m is True:
            return True
        if isinstance(m, (SBool,)):
            return m
        raise Unsupported(f"string equality undecided: {l!r} == {r!r}")

    def str_match(self, l, r):
        """False if definitely different, True if definitely equal, SBool if reducible to ints, None unknown"""
        lp = l.pieces if isinstance(l, SStr) else ((l,) if l else ())
        rp = r.pieces if isinstance(r, SStr) else ((r,) if r else ())
        if len(lp) == len(rp) and all(type(a) is type(b) for a, b in zip(lp, rp)):
            conds = []
            ok = True
            for a, b in zip(lp, rp):
                if isinstance(a, str):
                    if a != b:
                        # same piece structure, different literal: for Fmt-separated names this decides inequality
                        # only when literals are at the same position and differ
                        return self._regex_differs(lp, rp)
                elif isinstance(a, HexInt):
                    conds.append(zint(a.e) == zint(b.e))
                elif isinstance(a, ReprOf):
                    c = self.equals(a.val, b.val)  # repr is injective on bytes / ints
                    if c is False:
                        return False
                    if c is not True:
                        conds.append(zbool(c))
                elif isinstance(a, Fmt):
                    if a.spec != b.spec:
                        ok = False
                    conds.append(zint(a.e) == zint(b.e))
                else:
                    ok = False
            if ok:
                # equal iff all formatted ints equal (format with fixed spec is injective on ints >= 0)
                return mk_bool(z3.And(*conds)) if conds else True
        return self._regex_differs(lp, rp)

    def _regex_differs(self, lp, rp):
        """over-approximate each side by a regex-like pattern; return False if they cannot be equal, else None"""
        import re

        def pat(pieces):
            out = ""
            for p in pieces:
                if isinstance(p, str):
                    out += re.escape(p)
                elif isinstance(p, Fmt):
                    out += r"-?\d{2,}" if p.spec in ("02d", "03d") else r".*"
                else:
                    out += r".*"
            return out

        if all(isinstance(p, str) for p in lp):
            s = "".join(lp)
            return None if re.fullmatch(pat(rp), s, re.S) else False
        if all(isinstance(p, str) for p in rp):
            s = "".join(rp)
            return None if re.fullmatch(pat(lp), s, re.S) else False
        # both symbolic: compare literal prefixes / suffixes
        def lit_prefix(ps):
            return ps[0] if ps and isinstance(ps[0], str) else ""

        def lit_suffix(ps):
            return ps[-1] if ps and isinstance(ps[-1], str) else ""

        a, b = lit_prefix(lp), lit_prefix(rp)
        n = min(len(a), len(b))
        if a[:n] != b[:n]:
            return False
        a, b = lit_suffix(lp), lit_suffix(rp)
        n = min(len(a), len(b))
        if n and a[-n:] != b[-n:]:
            return False
        return None

    def contains(self, container, item):
        if isinstance(container, KwMap):
            return self.kw_contains(container, item)
        if isinstance(container, Ref) and container.kind == "dict":
            return self.dict_contains(self.st.rec(container)["items"], item)
        if isinstance(container, dict):
            return self.dict_contains(container, item)
        if isinstance(container, Ref) and container.kind in ("list", "tuple"):
            container = tuple(self.st.rec(container)["items"])
        if isinstance(container, (set, frozenset)):
            container = sorted(container, key=repr)
        if isinstance(container, (tuple, list)):
            acc = False
            for x in container:
                acc = self.or_(acc, self.equals(item, x))
                if acc is True:
                    return True
            return acc
        if isinstance(container, (str,)) and isinstance(item, str):
            return item in container
        if is_byteslike(container):
            rope = to_rope(container)
            if self.is_int(item):
                n = rope.concrete_len()
                if n is None:
                    return self.rope_contains_byte(rope, item)
                acc = False
                for k in range(n):
                    acc = self.or_(acc, mk_bool(rope.at(k) == zint(item)))
                return acc
            raise Unsupported("bytes subsequence containment")
        if isinstance(container, (str, SStr)):
            raise Unsupported("substring test on symbolic string")
        if isinstance(container, DictView):
            fields = self.st.rec(container.ref)["fields"]
            if isinstance(item, str):
                return item in fields
            if isinstance(item, SStr) and len(item.pieces) == 1 and isinstance(item.pieces[0], Opaque):
                # unknown name: in the instance dict or not - the same answer every time on this path
                memo = self.st.ghost.setdefault("in_dict", {})
                key = id(item.pieces[0])
                if key not in memo:
                    memo[key] = (self.st.choice(2, "name-in-dict") == 1, item)
                return memo[key][0]
            raise Unsupported("`in` on __dict__ with a structured symbolic name")
        if not is_symv(container) and not is_symv(item):
            try:
                return item in container
            except TypeError as e:
                self.raise_(TypeError, str(e))
        raise Unsupported(f"`in` on {type(container).__name__}")

    def rope_contains_byte(self, rope, item):
        """exists k. rope[k] == item, as an uninterpreted predicate with the two sound directions"""
        p = z3.Bool(fresh_name("has"))
        w = z3.Int(fresh_name("w"))
        n = zint(rope.length())
        self.st.assume(mk_bool(z3.Implies(p, z3.And(w >= 0, w < n, rope.at(w) == zint(item)))))
        self.st.ghost.setdefault("forall", []).append(("nohas", p, rope, zint(item)))
        return SBool(p)

    def dict_contains(self, d, key):
        if not is_symv(key):
            try:
                return key in d
            except TypeError as e:
                self.raise_(TypeError, str(e))
        acc = False
        for k in d:
            c = self.key_eq(key, k)
            acc = self.or_(acc, c)
        return acc

    def key_eq(self, key, k):
        try:
            return self.equals(key, k)
        except Unsupported:
            raise

    def dict_lookup(self, d, key, default=KeyError):
        """d[key] / d.get(key, default) with a possibly symbolic key: case split in insertion order"""
        if not is_symv(key):
            try:
                if key in d:
                    return d[key]
            except TypeError as e:
                self.raise_(TypeError, str(e))
            if default is KeyError:
                self.raise_(KeyError, key)
            return default
        cands = []
        for k in d:
            c = self.key_eq(key, k)
            if c is False:
                continue
            cands.append((k, c))
            if c is True:
                break
        if cands and not (len(cands) == 1 and cands[0][1] is True):
            disj = z3.Or(*[zbool(c) for _, c in cands])
            if self.st.must(z3.Not(disj)):
                cands = []
        for k, c in cands:
            if self.st.branch(c if isinstance(c, (bool, SBool)) else c):
                return d[k]
        if default is KeyError:
            self.raise_(KeyError, key)
        return default

    # ------------------------------------------------------------------ subscripts
    def norm_slice(self, sl, n):
        """Python slice normalisation for step 1; n int or z3; returns (lo, hi) with 0<=lo<=hi<=n"""
        def clamp(a, default):
            if a is None:
                return default
            if isinstance(a, int) and not isinstance(a, Sym) and isinstance(n, int):
                if a < 0:
                    return max(a + n, 0)
                return min(a, n)
            if not self.is_int(a):
                self.raise_(TypeError, "slice indices must be integers or None")
            az, nz = zint(a), zint(n)
            ca = as_const_int(az)
            if ca is not None and ca >= 0:
                # min(a, n)
                if self.st.must(nz >= ca):
                    return ca
                return zmin(ca, n)
            if ca is not None and ca < 0:
                if self.st.must(nz + ca >= 0):
                    return zadd(n, ca)
                return zmax(zadd(n, ca), 0)
            if self.st.must(z3.And(az >= 0, az <= nz)):
                return _zi(az)
            if self.st.must(az >= 0):
                return zmin(_zi(az), n)
            return _zi(z3.If(az < 0, z3.If(az + nz < 0, z3.IntVal(0), az + nz),
                             z3.If(az > nz, nz, az)))

        lo = clamp(sl.start, 0)
        hi = clamp(sl.stop, n)
        if isinstance(lo, int) and isinstance(hi, int):
            hi = max(hi, lo)
        else:
            if not self.st.must(zint(hi) >= zint(lo)):
                hi = zmax(hi, lo)
        return lo, hi

    def subscript(self, obj, idx):
        if isinstance(obj, Ref):
            if obj.kind in ("list", "tuple"):
                items = self.st.rec(obj)["items"]
                if isinstance(idx, slice):
                    if is_symv(idx.start) or is_symv(idx.stop):
                        raise Unsupported("symbolic list slice")
                    return self.st.alloc("list", None, items=list(items[idx]))
                if isinstance(idx, SInt):
                    return self.sym_index_list(items, idx)
                try:
                    return items[idx]
                except IndexError:
                    self.raise_(IndexError, "list index out of range")
                except TypeError as e:
                    self.raise_(TypeError, str(e))
            if obj.kind == "dict":
                return self.dict_lookup(self.st.rec(obj)["items"], idx)
            if obj.kind == "obj" and hasattr(obj.cls, "model_subscript"):
                return obj.cls.model_subscript(self.ex, obj, idx)
            raise Unsupported(f"subscript of {obj}")
        if isinstance(obj, KwMap):
            return self.kw_get(obj, idx, KeyError)
        if isinstance(obj, DictView):
            # obj.__dict__[name]: the instance's own fields only (no class attributes, no properties)
            if not isinstance(idx, str):
                raise Unsupported("subscript of __dict__ with a non-literal key")
            fields = self.st.rec(obj.ref)["fields"]
            if idx in fields:
                return fields[idx]
            self.raise_(KeyError, idx)
        if isinstance(obj, dict):
            return self.dict_lookup(obj, idx)
        if is_byteslike(obj):
            rope = to_rope(obj)
            n = rope.length()
            if isinstance(idx, slice):
                if not is_symv(idx.start) and not is_symv(idx.stop) and rope.is_concrete():
                    r = rope.concrete()[idx]
                    return r if rope.kind == "bytes" else SBytes.lit(r, "bytearray")
                lo, hi = self.norm_slice(idx, n)
                return rope.slice(lo, hi)
            if not self.is_int(idx):
                self.raise_(TypeError, "byte indices must be integers or slices")
            if isinstance(idx, int) and isinstance(n, int):
                if -n <= idx < n:
                    return mk_int(rope.at(idx % n))
                self.raise_(IndexError, "index out of range")
            iz, nz = zint(idx), zint(n)
            if self.st.branch(mk_bool(z3.Or(iz >= nz, iz < -nz))):
                self.raise_(IndexError, "index out of range")
            if self.st.must(iz >= 0):
                return mk_int(rope.at(idx if isinstance(idx, int) else iz))
            if self.st.must(iz < 0):
                return mk_int(rope.at(z3.simplify(iz + nz)))
            return mk_int(rope.at(z3.simplify(z3.If(iz < 0, iz + nz, iz))))
        if isinstance(obj, (str, SStr)):
            return self.str_subscript(obj, idx)
        if isinstance(obj, (tuple, list)):
            if isinstance(idx, slice):
                if is_symv(idx.start) or is_symv(idx.stop):
                    raise Unsupported("symbolic tuple slice")
                return obj[idx]
            if isinstance(idx, SInt):
                return self.sym_index_list(list(obj), idx)
            try:
                return obj[idx]
            except IndexError:
                self.raise_(IndexError, "index out of range")
            except TypeError as e:
                self.raise_(TypeError, str(e))
        if obj is None or isinstance(obj, (int, float, SInt, SFloat, SBool)):
            self.raise_(TypeError, f"'{self.pytype(obj).__name__}' object is not subscriptable")
        if not is_symv(obj) and not is_symv(idx):
            try:
                return obj[idx]
            except Exception as e:
                self.raise_(type(e), str(e))
        raise Unsupported(f"subscript of {type(obj).__name__}")

    def sym_index_list(self, items, idx):
        n = len(items)
        iz = idx.e
        if self.st.branch(mk_bool(z3.Or(iz >= n, iz < -n))):
            self.raise_(IndexError, "list index out of range")
        # case split
        for k in range(-n, n):
            if k == n - 1:
                return items[k]
            if self.st.branch(mk_bool(iz == k)):
                return items[k]
        raise PathEnd()

    def str_subscript(self, s, idx):
        if isinstance(s, str):
            if is_symv(idx) or (isinstance(idx, slice) and (is_symv(idx.start) or is_symv(idx.stop))):
                raise Unsupported("symbolic index into string")
            try:
                return s[idx]
            except IndexError:
                self.raise_(IndexError, "string index out of range")
        pieces = s.pieces
        if len(pieces) == 1 and isinstance(pieces[0], HexInt) and isinstance(idx, slice) and idx.start == 2 and idx.stop == 3:
            return SStr((HexDigit(pieces[0].e),))  # first hex digit after '0x' (non-negative ints)
        if isinstance(idx, slice):
            lo, hi = idx.start, idx.stop
            if is_symv(lo) or is_symv(hi):
                raise Unsupported("symbolic slice of symbolic string")
            # prefix slices [a:b] with 0<=a<=b inside the leading literal
            if (lo is None or lo >= 0) and hi is not None and hi >= 0:
                lo = lo or 0
                lead = pieces[0] if isinstance(pieces[0], str) else ""
                if hi <= len(lead):
                    return lead[lo:hi]
                # [0:k] reaching into a following Fmt piece: result is literal + start of '_dd'; keep as pattern
                rest = pieces[1:]
                if lo <= len(lead) and rest and isinstance(rest[0], Fmt):
                    return SStr((lead[lo:],) + (Opaque("prefix-of-fmt"),))
                raise Unsupported(f"slice [{lo}:{hi}] of {s}")
            if lo is not None and lo >= 0 and hi is None:
                lead = pieces[0] if isinstance(pieces[0], str) else ""
                if lo <= len(lead):
                    return mk_str((lead[lo:],) + tuple(pieces[1:]))
                raise Unsupported(f"slice [{lo}:] of {s}")
            if lo is not None and lo < 0 and hi is None:
                tail = pieces[-1] if isinstance(pieces[-1], str) else ""
                if -lo <= len(tail):
                    return tail[lo:]
                raise Unsupported(f"slice [{lo}:] of {s}")
            raise Unsupported(f"slice of symbolic string {s}")
        if isinstance(idx, int):
            lead = pieces[0] if isinstance(pieces[0], str) else ""
            if 0 <= idx < len(lead):
                return lead[idx]
            tail = pieces[-1] if isinstance(pieces[-1], str) else ""
            if idx < 0 and -idx <= len(tail):
                return tail[idx]
        raise Unsupported(f"index into symbolic string {s}")

    def store_subscript(self, obj, idx, v):
        if isinstance(obj, Ref) and obj.kind == "list":
            items = self.st.rec(obj)["items"]
            if is_symv(idx):
                raise Unsupported("list store at symbolic index")
            try:
                items[idx] = v
            except IndexError:
                self.raise_(IndexError, "list assignment index out of range")
            return
        if isinstance(obj, Ref) and obj.kind == "dict":
            if is_symv(idx):
                raise Unsupported("dict store with symbolic key")
            self.st.rec(obj)["items"][idx] = v
            return
        if isinstance(obj, (dict, list, bytearray)) and not isinstance(obj, KwMap):
            # mutation of a concrete object that the analysed code did not allocate: a shared table
            self.st.record_write(("ghost", "tables"))
            self.st.ghost.setdefault("table_writes", []).append(repr(idx)[:40])
            return
        raise Unsupported(f"subscript store on {type(obj).__name__}")

    # ------------------------------------------------------------------ attributes / objects
    def class_attr(self, cls, name):
        try:
            return inspect.getattr_static(cls, name)
        except AttributeError:
            return None

    def get_attr(self, obj, name):
        if isinstance(obj, Ref) and obj.kind == "obj":
            cls = obj.cls
            if hasattr(cls, "model_getattr"):
                return cls.model_getattr(self.ex, obj, name)
            ca = self.class_attr(cls, name)
            if isinstance(ca, property):
                return self.call_pyfunc(ca.fget, [obj], {})
            rec = self.st.rec(obj)
            if name in rec["fields"]:
                return rec["fields"][name]
            if name == "__dict__":
                return DictView(obj)
            if ca is not None:
                if isinstance(ca, staticmethod):
                    return ca.__func__
                if isinstance(ca, types.FunctionType):
                    return BoundMethod(obj, ca, name)
                if isinstance(ca, classmethod):
                    raise Unsupported("classmethod")
                return ca
            if rec.get("open"):
                # object with an open set of fields (arbitrary message): unknown attribute
                raise Unsupported(f"read of unknown field {name} of open object")
            self.raise_(AttributeError, f"'{cls.__name__}' object has no attribute '{name}'")
        if isinstance(obj, Ref):
            if obj.kind == "list" and name in ("append", "pop", "extend", "index", "copy"):
                return BoundMethod(obj, None, name)
            if obj.kind == "dict" and name in ("get", "items", "keys", "values"):
                return BoundMethod(obj, None, name)
            raise Unsupported(f"attribute {name} of {obj}")
        if isinstance(obj, Sym) or isinstance(obj, (KwMap, ExcVal)):
            return BoundMethod(obj, None, name)
        if obj is None:
            self.raise_(AttributeError, f"'NoneType' object has no attribute '{name}'")
        try:
            v = getattr(obj, name)
        except AttributeError as e:
            self.raise_(AttributeError, str(e))
        if isinstance(v, (types.BuiltinMethodType, types.MethodType, types.MethodWrapperType)) and \
                not isinstance(obj, (types.ModuleType, type)):
            return BoundMethod(obj, None, name)
        return v

    def name_patterns(self, name):
        """a possibly symbolic attribute name as (base literal prefix, is_concrete)"""
        if isinstance(name, str):
            return name, True
        lead = name.pieces[0] if isinstance(name.pieces[0], str) else ""
        return lead, False

    def set_attr(self, obj, name, v, direct=False):
        """attribute store `obj.name = v` (statement or setattr()); honours class __setattr__ unless direct"""
        if isinstance(obj, Ref) and obj.kind == "obj":
            cls = obj.cls
            if hasattr(cls, "model_setattr"):
                return cls.model_setattr(self.ex, obj, name, v)
            if not direct:
                sa = self.class_attr(cls, "__setattr__")
                if isinstance(sa, types.FunctionType):
                    return self.call_pyfunc(sa, [obj, name, v], {})
            return self.object_setattr(obj, name, v)
        if isinstance(obj, (Sym, KwMap)) or obj is None or isinstance(obj, (int, str, bytes, tuple)):
            self.raise_(AttributeError, f"'{self.pytype(obj).__name__}' object has no attribute")
        if isinstance(obj, (types.ModuleType, type, dict, list)):
            self.st.record_write(("ghost", "tables"))
            return
        raise Unsupported(f"attribute store on {type(obj).__name__}")

    def object_setattr(self, obj, name, v):
        """object.__setattr__: data descriptors of the class win"""
        cls = obj.cls
        rec = self.st.rec(obj)
        if isinstance(name, str):
            ca = self.class_attr(cls, name)
            if isinstance(ca, property):
                if ca.fset is None:
                    self.raise_(AttributeError, f"property '{name}' of '{cls.__name__}' object has no setter")
                raise Unsupported("property setter")
            rec["fields"][name] = v
            self.st.record_write((obj.id, name))
            self.st.trace.append(("set", obj.id, name))
            mon = self.st.ghost.get("monitor")
            if mon is not None and self.st.ghost.get("monitor_obj") == obj.id:
                mon.on_store(self.ex, obj, name, None, v)
            return
        if isinstance(name, SStr) and not any(isinstance(p_, Fmt) for p_ in name.pieces):
            # a name known only by its literal prefix (configuration keys): allowed when it cannot collide with
            # an attribute of the class or a private field
            lead = name.pieces[0] if isinstance(name.pieces[0], str) else ""
            if not lead and len(name.pieces) == 1 and isinstance(name.pieces[0], Opaque):
                mon = self.st.ghost.get("monitor")
                if mon is not None and self.st.ghost.get("monitor_obj") == obj.id and hasattr(mon, "on_symstore") \
                        and mon.on_symstore(self.ex, obj, name, v):
                    # the key/value loop stored under a name that is not the looked-up one: reported by the monitor;
                    # the path ends here (which field such a store would hit is not explored)
                    raise PathEnd()
                # a wholly unknown name: it is one of the object's fields, a class attribute, or a new name.  Case split
                # over those (candidates contradicting what the path already learnt about the name's prefix / suffix
                # are dropped).
                cands = list(rec["fields"]) + sorted(n_ for n_ in self.class_names(cls) if not n_.startswith("__"))
                cands += ["new_public_name", "_new_private_name"]
                memo = self.st.ghost.get("str_affix", {})
                for (pid, how, affixes), (ans, _s) in memo.items():
                    if pid == id(name.pieces[0]):
                        cands = [c for c in cands if any(getattr(c, how)(a) for a in affixes) == ans]
                cands = list(dict.fromkeys(cands))
                if not cands:
                    raise PathEnd()
                pick = cands[self.st.choice(len(cands), "unknown-attribute-name")]
                return self.object_setattr(obj, pick, v)
            if not lead:
                raise Unsupported(f"attribute store with unknown name {name}")
            for cname in list(self.class_names(cls)) + [f for f in rec["fields"] if f.startswith("_")]:
                if cname.startswith(lead) or lead.startswith(cname):
                    raise Unsupported(f"symbolic attribute name {name} may collide with {cname}")
            rec.setdefault("symfields", []).append((name, v))
            self.st.record_write((obj.id, lead + "*"))
            self.st.trace.append(("setsym", obj.id, lead))
            mon = self.st.ghost.get("monitor")
            if mon is not None and self.st.ghost.get("monitor_obj") == obj.id and hasattr(mon, "on_symstore"):
                mon.on_symstore(self.ex, obj, name, v)
            return
        if isinstance(name, SStr):
            # family store: literal base + Fmt index pieces
            base, idx = self.family_key(name)
            for cname in self.class_names(cls):
                if self.str_match(name, cname) is not False:
                    raise Unsupported(f"symbolic attribute name {name} may collide with class attribute {cname}")
            for fname in rec["fields"]:
                if self.str_match(name, fname) is not False:
                    raise Unsupported(f"symbolic attribute name {name} may alias field {fname}")
            fam = rec.setdefault("fam", {})
            fam.setdefault(base, []).append((idx, v, list(self.st.ghost.get("loopguard", []))))
            self.st.record_write((obj.id, base[0] + "_NN"))
            self.st.trace.append(("setfam", obj.id, base, idx))
            mon = self.st.ghost.get("monitor")
            if mon is not None and self.st.ghost.get("monitor_obj") == obj.id:
                mon.on_store(self.ex, obj, base[0], idx, v)
            return
        self.raise_(TypeError, "attribute name must be string")

    def class_names(self, cls):
        names = set()
        for c in cls.__mro__:
            names.update(c.__dict__.keys())
        return names

    def family_key(self, name: SStr):
        """attribute name built as base + ("_" + two-digit index)+  ->  ((base, arity), index tuple)"""
        import re as _re
        pieces = list(name.pieces)
        if not pieces or not isinstance(pieces[0], str):
            raise Unsupported(f"attribute name without literal base: {name}")
        idx = []
        base = None
        pending = pieces[0]
        for p in pieces[1:]:
            if isinstance(p, Fmt) and p.spec == "02d":
                if not pending.endswith("_"):
                    raise Unsupported(f"attribute name shape {name}")
                head = pending[:-1]
                if base is None:
                    # literal head may itself carry concrete indices, e.g. "cno_03_"
                    m = _re.fullmatch(r"(.*?)((?:_\d\d+)*)", head)
                    base = m.group(1)
                    idx += [int(x) for x in m.group(2).split("_")[1:]] if m.group(2) else []
                else:
                    m = _re.fullmatch(r"((?:_\d\d+)*)", head)
                    if m is None:
                        raise Unsupported(f"attribute name shape {name}")
                    idx += [int(x) for x in head.split("_")[1:]] if head else []
                idx.append(p.e)
                pending = ""
            elif isinstance(p, str):
                pending += p
            else:
                raise Unsupported(f"attribute name shape {name}")
        if pending:
            m = _re.fullmatch(r"((?:_\d\d+)+)", pending)
            if m is None or base is None:
                raise Unsupported(f"attribute name shape {name}")
            idx += [int(x) for x in pending.split("_")[1:]]
        if base is None or not base:
            raise Unsupported(f"attribute name shape {name}")
        return (base, len(idx)), tuple(idx)

    def del_attr(self, obj, name):
        if isinstance(obj, Ref) and obj.kind == "obj":
            cls = obj.cls
            da = self.class_attr(cls, "__delattr__")
            if isinstance(da, types.FunctionType):
                return self.call_pyfunc(da, [obj, name], {})
            rec = self.st.rec(obj)
            if name in rec["fields"]:
                del rec["fields"][name]
                self.st.record_write((obj.id, name))
                return
            self.raise_(AttributeError, name)
        raise Unsupported("del attribute")

    def has_attr(self, obj, name):
        E = _exec()
        try:
            self.getattr_dyn(obj, name)
            return True
        except E.PyRaise as pr:
            if issubclass(pr.exc.cls, AttributeError):
                return False
            raise

    def getattr_dyn(self, obj, name, *default):
        """getattr(obj, name[, default]) with possibly symbolic name"""
        E = _exec()
        if isinstance(name, SStr):
            if isinstance(obj, Ref) and obj.kind == "obj":
                return self.family_read(obj, name, default)
            raise Unsupported("getattr with symbolic name")
        if not isinstance(name, str):
            self.raise_(TypeError, "attribute name must be string")
        try:
            return self.get_attr(obj, name)
        except E.PyRaise as pr:
            if default and issubclass(pr.exc.cls, AttributeError):
                return default[0]
            raise

    def family_read(self, obj, name, default):
        rec = self.st.rec(obj)
        base, idx = self.family_key(name)
        fam = rec.get("fam", {}).get(base)
        if fam:
            for (widx, v, _g) in reversed(fam):
                if all(self.st.must(zint(a) == zint(b)) for a, b in zip(widx, idx)):
                    return v
        raise Unsupported(f"read of attribute family {name}")

    # ------------------------------------------------------------------ calls
    def make_kwargs(self, kwargs):
        if ("__kwmap__" in kwargs):
            return kwargs
        return KwMap(kwargs)

    def kwargs_items(self, d):
        if isinstance(d, KwMap):
            if d.sym is not None:
                return {"__kwmap__": d}
            return dict(d.items)
        if isinstance(d, dict):
            return dict(d)
        if isinstance(d, Ref) and d.kind == "dict":
            return dict(self.st.rec(d)["items"])
        raise Unsupported("** of non-dict")

    def kw_len(self, kw):
        if kw.sym is not None:
            return kw.sym.length(self)
        return len(kw.items)

    def kw_contains(self, kw, key):
        if kw.sym is not None:
            return kw.sym.contains(self, key)
        if isinstance(key, SStr):
            acc = False
            for k in kw.items:
                m = self.str_match(key, k)
                if m is False:
                    continue
                if m is None:
                    raise Unsupported("kwargs membership undecided")
                acc = self.or_(acc, m)
            return acc
        return key in kw.items

    def kw_get(self, kw, key, default):
        if kw.sym is not None:
            return kw.sym.get(self, key, default)
        if isinstance(key, SStr):
            for k in kw.items:
                m = self.str_match(key, k)
                if m is False:
                    continue
                if m is None:
                    raise Unsupported("kwargs lookup undecided")
                if self.st.branch(m):
                    return kw.items[k]
            if default is KeyError:
                self.raise_(KeyError, "key")
            return default
        if key in kw.items:
            return kw.items[key]
        if default is KeyError:
            self.raise_(KeyError, key)
        return default

    def call_value(self, f, args, kwargs):
        if isinstance(f, BoundMethod):
            if f.fobj is not None:
                return self.call_pyfunc(f.fobj, [f.recv] + list(args), kwargs)
            return self.call_method(f.recv, f.name, args, kwargs)
        if isinstance(f, SpecFn):
            return f.fn(self.ex, *args, **(kwargs if isinstance(kwargs, dict) else {}))
        if isinstance(f, Ref) and f.kind == "obj" and hasattr(f.cls, "model_call"):
            return f.cls.model_call(self.ex, f, args, kwargs)
        if isinstance(f, types.FunctionType):
            return self.call_pyfunc(f, args, kwargs)
        if type(f).__name__ == "_lru_cache_wrapper" and isinstance(getattr(f, "__wrapped__", None), types.FunctionType):
            # functools.lru_cache / cache: analysed as the wrapped function; the sharing of results that the cache
            # introduces is the frame scan's business (memoising decorators are reported there)
            return self.call_pyfunc(f.__wrapped__, args, kwargs)
        if isinstance(f, type):
            return self.call_class(f, args, kwargs)
        if ("__kwmap__" in kwargs):
            raise Unsupported("symbolic kwargs to builtin")
        try:
            h = self.table.get(f)
        except TypeError:
            h = None
        if h is not None:
            return h(*args, **kwargs)
        if callable(f) and all(deep_concrete(a) for a in args) and all(deep_concrete(a) for a in kwargs.values()) \
                and self.is_pure_builtin(f):
            try:
                return f(*args, **kwargs)
            except Exception as e:
                self.raise_(type(e), str(e))
        if not callable(f):
            self.raise_(TypeError, f"'{self.pytype(f).__name__}' object is not callable")
        raise Unsupported(f"call of {f!r}")

    PURE = None

    def is_pure_builtin(self, f):
        mod = getattr(f, "__module__", None)
        if mod in ("builtins", "math", "_struct", "struct", "binascii", "operator"):
            return getattr(f, "__name__", "") not in ("print", "input", "open", "exec", "eval", "setattr", "delattr")
        return False

    def call_pyfunc(self, fobj, args, kwargs):
        qn = extract.qualname_of(fobj)
        if qn is None:
            raise Unsupported(f"function without qualname {fobj!r}")
        return self.ex.reg.call(self.ex, qn, fobj, list(args), kwargs)

    def call_class(self, cls, args, kwargs):
        if isinstance(cls, type) and issubclass(cls, BaseException):
            return ExcVal(cls, tuple(args))
        h = self.table.get(cls)
        if h is not None:
            if ("__kwmap__" in kwargs):
                raise Unsupported("symbolic kwargs to builtin class")
            return h(*args, **kwargs)
        if getattr(cls, "__module__", "").startswith("pyubx2"):
            return self.ex.reg.construct(self.ex, cls, list(args), kwargs)
        if hasattr(cls, "model_new"):
            return cls.model_new(self.ex, args, kwargs)
        if all(deep_concrete(a) for a in args) and not ("__kwmap__" in kwargs) and \
                all(deep_concrete(a) for a in kwargs.values()) and cls.__module__ in ("builtins", "datetime"):
            try:
                return cls(*args, **kwargs)
            except Exception as e:
                self.raise_(type(e), str(e))
        raise Unsupported(f"construction of {cls!r}")

    def new_object(self, cls, **fields):
        return self.st.alloc("obj", cls, fields=dict(fields))

    def super_call(self, name, args, kwargs, fr):
        self_ref = fr.env.get("self")
        if name == "__setattr__":
            return self.object_setattr(self_ref, args[0], args[1])
        if name == "__delattr__":
            rec = self.st.rec(self_ref)
            nm = args[0]
            if isinstance(nm, str) and nm in rec["fields"]:
                del rec["fields"][nm]
                self.st.record_write((self_ref.id, nm))
                return None
            if isinstance(nm, str):
                self.raise_(AttributeError, nm)
            if isinstance(nm, SStr) and len(nm.pieces) == 1 and isinstance(nm.pieces[0], Opaque):
                # a wholly unknown name: it names one of the object's fields (which is then deleted) or nothing
                # (AttributeError); candidates contradicting what the path learnt about the name are dropped
                cands = list(rec["fields"]) + [None]
                memo = self.st.ghost.get("str_affix", {})
                for (pid, how, affixes), (ans, _s) in memo.items():
                    if pid == id(nm.pieces[0]):
                        cands = [c for c in cands if c is None or any(getattr(c, how)(a) for a in affixes) == ans]
                indict = self.st.ghost.get("in_dict", {}).get(id(nm.pieces[0]))
                if indict is not None:
                    cands = [c for c in cands if (c is not None) == indict[0]]
                if not cands:
                    raise PathEnd()
                pick = cands[self.st.choice(len(cands), "unknown-attribute-name")]
                if pick is None:
                    self.raise_(AttributeError, "no such attribute")
                del rec["fields"][pick]
                self.st.record_write((self_ref.id, pick))
                return None
            raise Unsupported("delattr symbolic name")
        if name == "__init__":
            return None
        raise Unsupported(f"super().{name}")

    def call_method(self, recv, name, args, kwargs):
        if isinstance(recv, Ref):
            if recv.kind == "obj":
                if hasattr(recv.cls, "model_method"):
                    return recv.cls.model_method(self.ex, recv, name, args, kwargs)
                f = self.get_attr(recv, name)
                return self.call_value(f, args, kwargs)
            if recv.kind == "list":
                return self.list_method(recv, name, args)
            if recv.kind == "dict":
                return self.dict_method(self.st.rec(recv)["items"], name, args)
        if isinstance(recv, KwMap):
            if name == "get":
                return self.kw_get(recv, args[0], args[1] if len(args) > 1 else None)
            raise Unsupported(f"kwargs.{name}")
        if isinstance(recv, dict):
            if name in READONLY_MUTATORS:
                self.st.record_write(("ghost", "tables"))
                return None
            return self.dict_method(recv, name, args)
        if isinstance(recv, (SInt, SBool)) or (isinstance(recv, int) and not isinstance(recv, bool) and any(map(is_symv, args))):
            return self.int_method(recv, name, args, kwargs)
        if is_byteslike(recv) and (isinstance(recv, SBytes) or any(map(is_symv, args))):
            return self.bytes_method(to_rope(recv), name, args, kwargs)
        if isinstance(recv, SStr) or (isinstance(recv, str) and not all(deep_concrete(a) for a in args)):
            return self.str_method(recv, name, args, kwargs)
        if isinstance(recv, SFloat):
            raise Unsupported(f"float.{name}")
        if isinstance(recv, ExcVal):
            raise Unsupported(f"exception.{name}")
        if isinstance(recv, (types.ModuleType, type)):
            f = self.get_attr(recv, name)
            return self.call_value(f, args, kwargs)
        if recv is None:
            self.raise_(AttributeError, f"'NoneType' object has no attribute '{name}'")
        # concrete receiver, concrete args: native, but never mutate objects we did not allocate
        if isinstance(recv, (list, dict, set, bytearray)) and name in READONLY_MUTATORS:
            self.st.record_write(("ghost", "tables"))
            return None
        if ("__kwmap__" in kwargs):
            raise Unsupported("symbolic kwargs to builtin method")
        if all(deep_concrete(a) for a in args) and all(deep_concrete(a) for a in kwargs.values()):
            try:
                m = getattr(recv, name)
            except AttributeError as e:
                self.raise_(AttributeError, str(e))
            h = None
            try:
                h = self.table.get(m)
            except TypeError:
                pass
            if h is not None:
                return h(*args, **kwargs)
            try:
                res = m(*args, **kwargs)
            except Exception as e:
                self.raise_(type(e), str(e))
            if isinstance(res, list):
                return self.st.alloc("list", None, items=list(res))
            return res
        raise Unsupported(f"method {type(recv).__name__}.{name} with symbolic arguments")

    def list_method(self, ref, name, args):
        items = self.st.rec(ref)["items"]
        if name == "append":
            items.append(args[0])
            return None
        if name == "pop":
            if not items:
                self.raise_(IndexError, "pop from empty list")
            if args:
                if is_symv(args[0]):
                    raise Unsupported("pop symbolic index")
                try:
                    return items.pop(args[0])
                except IndexError:
                    self.raise_(IndexError, "pop index out of range")
            return items.pop()
        if name == "extend":
            seq = self.concrete_iter(args[0])
            if seq is None:
                raise Unsupported("extend with symbolic iterable")
            items.extend(seq)
            return None
        if name == "copy":
            return self.st.alloc("list", None, items=list(items))
        raise Unsupported(f"list.{name}")

    def dict_method(self, d, name, args):
        if name == "get":
            return self.dict_lookup(d, args[0], args[1] if len(args) > 1 else None)
        if name == "items":
            return [(k, v) for k, v in d.items()]
        if name == "keys":
            return list(d.keys())
        if name == "values":
            return list(d.values())
        raise Unsupported(f"dict.{name}")

    # -- ints
    def int_method(self, v, name, args, kwargs):
        if name == "to_bytes":
            return self.int_to_bytes(v, *args, **kwargs)
        if name == "bit_length":
            raise Unsupported("bit_length")
        raise Unsupported(f"int.{name}")

    def int_to_bytes(self, v, length=1, byteorder="big", *, signed=False):
        if is_symv(length) or is_symv(byteorder):
            raise Unsupported("to_bytes with symbolic length/byteorder")
        if isinstance(signed, (SBool, SInt)):
            signed = self.st.branch(self.truth(signed))
        signed = bool(signed)
        if not isinstance(v, (SInt, SBool)):
            try:
                return int(v).to_bytes(length, byteorder, signed=signed)
            except OverflowError as e:
                self.raise_(OverflowError, str(e))
        if byteorder not in ("little", "big"):
            self.raise_(ValueError, "byteorder must be either 'little' or 'big'")
        if length < 0:
            self.raise_(ValueError, "length argument must be non-negative")
        e = zint(v)
        n = length
        if signed:
            lo, hi = -(1 << (8 * n - 1)) if n else 0, (1 << (8 * n - 1)) if n else 1
        else:
            lo, hi = 0, 1 << (8 * n)
        if not signed and self.st.branch(mk_bool(e < 0)):
            self.raise_(OverflowError, "can't convert negative int to unsigned")
        if self.st.branch(mk_bool(z3.Or(e < lo, e >= hi))):
            self.raise_(OverflowError, "int too big to convert")
        cells = [z3.Int(fresh_name("tb")) for _ in range(n)]
        for c in cells:
            self.st.assume(mk_bool(z3.And(c >= 0, c <= 255)))
        total = z3.Sum([c * (1 << (8 * i)) for i, c in enumerate(cells)]) if cells else z3.IntVal(0)
        if signed:
            self.st.assume(mk_bool(total == z3.If(e < 0, e + (1 << (8 * n)), e)))
        else:
            self.st.assume(mk_bool(total == e))
        if byteorder == "big":
            cells = list(reversed(cells))
        return SBytes.cells(cells)

    def int_from_bytes(self, b, byteorder="big", *, signed=False):
        if not is_byteslike(b):
            if isinstance(b, Ref) and b.kind in ("list", "tuple"):
                raise Unsupported("from_bytes of list")
            self.raise_(TypeError, "cannot convert object to bytes")
        if is_symv(byteorder):
            raise Unsupported("from_bytes symbolic byteorder")
        if isinstance(signed, (SBool, SInt)):
            signed = self.st.branch(self.truth(signed))
        if byteorder not in ("little", "big"):
            self.raise_(ValueError, "byteorder must be either 'little' or 'big'")
        rope = to_rope(b)
        if rope.is_concrete():
            return int.from_bytes(rope.concrete(), byteorder, signed=bool(signed))
        n = rope.concrete_len()
        if n is None:
            ub = self.len_upper_bound(rope)
            if ub is None:
                raise Unsupported("from_bytes of rope with unbounded symbolic length")
            ln = zint(rope.length())
            if byteorder != "little":
                if signed:
                    raise Unsupported("signed big-endian from_bytes of symbolic-length rope")
                total = z3.IntVal(0)
                for L in range(ub, 0, -1):
                    total = z3.If(ln == L, z3.Sum([rope.at(k) * (1 << (8 * (L - 1 - k))) for k in range(L)]), total)
                return mk_int(total)
            total = z3.Sum([z3.If(ln > k, rope.at(k), 0) * (1 << (8 * k)) for k in range(ub)]) if ub else z3.IntVal(0)
            if signed:
                # sign bit is that of the last present byte
                top = z3.IntVal(0)
                for k in range(ub, 0, -1):
                    top = z3.If(ln == k, z3.If(rope.at(k - 1) >= 128, z3.IntVal(1 << (8 * k)), z3.IntVal(0)), top)
                total = total - top
            return mk_int(total)
        cells = [rope.at(k) for k in range(n)]
        if byteorder == "big":
            cells = list(reversed(cells))
        total = z3.Sum([c * (1 << (8 * i)) for i, c in enumerate(cells)]) if cells else z3.IntVal(0)
        if signed and n:
            total = total - z3.If(cells[-1] >= 128, z3.IntVal(1 << (8 * n)), z3.IntVal(0))
        return mk_int(total)

    def len_upper_bound(self, rope):
        """a concrete upper bound of a symbolic rope length, found by the solver (small candidates only)"""
        ln = zint(rope.length())
        for ub in (0, 1, 2, 3, 4, 6, 8, 12, 16, 24, 32, 64):
            if self.st.must(ln <= ub):
                return ub
        return None

    # -- bytes
    def bytes_method(self, rope, name, args, kwargs):
        if name == "hex":
            if rope.is_concrete():
                return rope.concrete().hex()
            return SStr((HexOf(rope),))
        if name == "decode":
            if rope.is_concrete():
                try:
                    return rope.concrete().decode(*args, **kwargs)
                except Exception as e:
                    self.raise_(type(e), str(e))
            errors = args[1] if len(args) > 1 else kwargs.get("errors", "strict")
            enc = args[0] if args else kwargs.get("encoding", "utf-8")
            self.st.ghost.setdefault("codec_log", []).append(("decode", enc, errors))
            from .values import TextOf, norm_codec
            if errors in ("backslashreplace", "replace", "ignore"):
                return SStr((TextOf(rope, norm_codec(enc), errors),))
            # strict decoding of bytes the engine knows nothing about: they are valid in that codec, or they are not
            if self.st.choice(2, "decode-strict") == 0:
                self.raise_(UnicodeDecodeError, str(enc), b"", 0, 1, "invalid start byte")
            return SStr((TextOf(rope, norm_codec(enc), errors),))
        if name == "replace":
            raise Unsupported("bytes.replace")
        if name in ("rstrip", "lstrip", "strip"):
            return self.bytes_strip(rope, name, args)
        if name in ("find", "index") and args and len(args) <= 3:
            return self.bytes_find(rope, name, args)
        raise Unsupported(f"bytes.{name}")

    def bytes_find(self, rope, name, args):
        """b.find(needle[, start[, end]]) for a concrete, non-empty needle: the lowest index of an occurrence within the
        window, or -1 (index: ValueError).  The result r is characterised: occurrence at r, none before it (forall-fact,
        instantiated at every index the VC reads), and no occurrence at all when r == -1."""
        from .values import to_rope
        needle = args[0]
        if isinstance(needle, SBytes):
            if not needle.is_concrete():
                raise Unsupported("bytes.find with a symbolic needle")
            needle = needle.concrete()
        if isinstance(needle, int) and not isinstance(needle, bool):
            needle = bytes([needle])
        if not isinstance(needle, (bytes, bytearray)):
            self.raise_(TypeError, "argument should be integer or bytes-like object")
        needle = bytes(needle)
        rope = to_rope(rope)
        if rope.is_concrete() and all(not is_symv(a) for a in args[1:]):
            try:
                return getattr(rope.concrete(), name)(needle, *args[1:])
            except ValueError as e:
                self.raise_(ValueError, str(e))
        if not needle:
            raise Unsupported("bytes.find with an empty needle")
        if len(args) > 1 and not (len(args) == 2 and isinstance(args[1], int) and args[1] == 0):
            raise Unsupported("bytes.find with a start / end window")
        n = zint(rope.length())
        m = len(needle)
        st = self.st

        def occ(j):
            return z3.And(*[rope.at(j + k) == needle[k] for k in range(m)])

        r = z3.Int(fresh_name("find"))
        st.assume(mk_bool(z3.And(r >= -1, r <= n - m)))
        st.assume(mk_bool(z3.Implies(r >= 0, occ(r))))
        st.add_forall(lambda j, r=r, n=n: z3.Implies(z3.And(j >= 0, j + m <= n, z3.Or(r == -1, j < r)), z3.Not(occ(j))))
        st.add_trigger(z3.IntVal(0))
        st.add_trigger(r - 1)
        if name == "index":
            if st.branch(mk_bool(r == -1)):
                self.raise_(ValueError, "subsection not found")
        return mk_int(r)

    def bytes_strip(self, rope, name, args):
        """b.rstrip(chars) / lstrip / strip with a concrete set of byte values: the result is the slice b[lo:hi] with
        every byte outside it (on the stripped side) in the set and the boundary byte, if any, not in the set"""
        from .values import to_rope
        chars = args[0] if args else b" \t\n\r\x0b\x0c"
        if isinstance(chars, SBytes):
            if not chars.is_concrete():
                raise Unsupported(f"bytes.{name} with a symbolic character set")
            chars = chars.concrete()
        if chars is None:
            chars = b" \t\n\r\x0b\x0c"
        if not isinstance(chars, (bytes, bytearray)):
            self.raise_(TypeError, "a bytes-like object is required")
        rope = to_rope(rope)
        if rope.is_concrete():
            return getattr(rope.concrete(), name)(bytes(chars))
        cs = sorted(set(chars))
        n = zint(rope.length())
        st = self.st

        def inset(e):
            return z3.Or(*[e == c for c in cs]) if cs else z3.BoolVal(False)

        lo, hi = z3.IntVal(0), n
        if name in ("rstrip", "strip"):
            hi = z3.Int(fresh_name("rstrip_hi"))
        if name in ("lstrip", "strip"):
            lo = z3.Int(fresh_name("lstrip_lo"))
        st.assume(mk_bool(z3.And(lo >= 0, lo <= hi, hi <= n)))
        if name in ("rstrip", "strip"):
            st.assume(mk_bool(z3.Or(hi == lo, z3.Not(inset(rope.at(hi - 1))))))
            st.add_forall(lambda j, hi=hi, n=n, rope=rope: z3.Implies(z3.And(j >= hi, j < n), inset(rope.at(j))))
            st.add_trigger(n - 1)
            st.add_trigger(n - 2)
            st.add_trigger(hi)
        if name in ("lstrip", "strip"):
            st.assume(mk_bool(z3.Or(lo == hi, z3.Not(inset(rope.at(lo))))))
            st.add_forall(lambda j, lo=lo, rope=rope: z3.Implies(z3.And(j >= 0, j < lo), inset(rope.at(j))))
            st.add_trigger(z3.IntVal(0))
            st.add_trigger(lo - 1)
        return self.subscript(rope if isinstance(rope, SBytes) else rope, slice(mk_int(lo), mk_int(hi), None))

    def str_method(self, s, name, args, kwargs):
        if name == "encode":
            errors = args[1] if len(args) > 1 else kwargs.get("errors", "strict")
            enc = args[0] if args else kwargs.get("encoding", "utf-8")
            self.st.ghost.setdefault("codec_log", []).append(("encode", enc, errors))
            from .values import norm_codec
            memo = self.st.ghost.setdefault("encoded", {})
            mkey = (tuple(id(pc) for pc in s.pieces), norm_codec(enc), errors)
            if mkey in memo:
                return memo[mkey][0]  # encoding is a function of (text, codec, error handler)
            rope = SBytes.view(Base("enc"), 0, z3.Int(fresh_name("enclen")))
            memo[mkey] = (rope, s)
            self.st.assume(mk_bool(zint(rope.length()) >= 0))
            if errors == "strict":
                raise Unsupported("strict encode of symbolic str")
            return rope
        if name in ("format", "join", "strip", "lstrip", "rstrip", "upper", "lower", "title", "replace"):
            return SStr((Opaque(name),))  # some text (nothing is claimed about its contents)
        if name in ("startswith", "endswith") and len(args) == 1 and isinstance(args[0], (str, tuple)) \
                and all(isinstance(x, str) for x in (args[0] if isinstance(args[0], tuple) else (args[0],))):
            return self.str_affix(s, name, args[0])
        raise Unsupported(f"str.{name}")

    def str_affix(self, s, name, affix):
        """startswith / endswith of a symbolic string with a concrete affix: decided from the concrete text at that end of
        the piece list where possible, otherwise an arbitrary (but per path and per question consistent) answer"""
        affixes = affix if isinstance(affix, tuple) else (affix,)
        pieces = list(s.pieces)
        if name == "endswith":
            pieces = pieces[::-1]
        lead = ""
        for pc in pieces:
            if not isinstance(pc, str):
                break
            lead = (lead + pc) if name == "startswith" else (pc + lead)
        whole = all(isinstance(pc, str) for pc in pieces)
        undecided = False
        for a in affixes:
            if name == "startswith":
                if len(lead) >= len(a) or whole:
                    if lead.startswith(a):
                        return True
                    continue
                if a.startswith(lead):
                    undecided = True
            else:
                if len(lead) >= len(a) or whole:
                    if lead.endswith(a):
                        return True
                    continue
                if a.endswith(lead):
                    undecided = True
        if not undecided:
            return False
        memo = self.st.ghost.setdefault("str_affix", {})
        key = (id(s.pieces[0 if name == "startswith" else -1]), name, affixes)
        if key not in memo:
            memo[key] = (self.st.choice(2, f"str-{name}") == 1, s)  # keep s alive: the key is an object identity
        return memo[key][0]

    # -- formatting
    def format(self, val, spec, conv):
        if not is_symv(val) and not isinstance(val, (ExcVal, BoundMethod, KwMap)):
            if isinstance(val, (dict, list, tuple)) and not deep_concrete(val):
                return Opaque("container")
            try:
                if conv == 114:
                    val = repr(val)
                elif conv == 115:
                    val = str(val)
                return format(val, spec)
            except Exception as e:
                self.raise_(type(e), str(e))
        if isinstance(val, SStr) and spec == "" and conv in (-1, 115):
            return val  # str() of a (symbolic) string is the string itself
        if isinstance(val, SBytes) and spec == "":
            return ReprOf(val)
        if isinstance(val, (SInt,)) and not val.isbool:
            if spec == "" and conv in (-1, 114, 115):
                return ReprOf(val)
            if conv == -1 and spec in ("02d", "03d", "d", ""):
                return Fmt(val.e, spec or "d")
            if conv == -1 and spec and spec[-1] in "xXdob" and spec[:-1].isdigit() or spec in ("x", "X"):
                return Opaque("fmtint")
            if conv in (114, 115) or spec == "":
                return Opaque("strint")
            raise Unsupported(f"format spec {spec!r} for int")
        if isinstance(val, Ref) and val.kind == "obj" and getattr(val.cls, "__module__", "").startswith("pyubx2"):
            raise Unsupported("formatting a message object inside the analysed code")
        if spec not in ("",) and not isinstance(val, (SInt, SBool)):
            if isinstance(val, (SBytes, SStr)) and spec:
                self.raise_(TypeError, "unsupported format string passed to bytes.__format__")
            raise Unsupported(f"format spec {spec!r}")
        return Opaque("str")

    # ------------------------------------------------------------------ iteration
    def concrete_iter(self, it):
        """python list of items if the iterable has a concrete number of elements, else None"""
        if isinstance(it, Ref):
            if it.kind in ("list", "tuple"):
                return list(self.st.rec(it)["items"])
            if it.kind == "dict":
                return list(self.st.rec(it)["items"].keys())
            return None
        if isinstance(it, SBytes):
            n = it.concrete_len()
            if n is None:
                return None
            return [mk_int(it.at(k)) for k in range(n)]
        if isinstance(it, SymRange):
            return None
        if isinstance(it, KwMap):
            if it.sym is not None:
                return None
            return list(it.items.keys())
        if isinstance(it, DictView):
            return None
        if isinstance(it, (Sym,)):
            return None
        if isinstance(it, (list, tuple, range, dict, bytes, bytearray, str, set, frozenset)):
            return list(it)
        if isinstance(it, EnumView):
            inner = self.concrete_iter(it.inner)
            if inner is None:
                return None
            return [(i + it.start, x) for i, x in enumerate(inner)]
        try:
            return list(it)
        except TypeError:
            self.raise_(TypeError, f"'{self.pytype(it).__name__}' object is not iterable")

    def symbolic_comprehension(self, e, g, it, fr):
        raise Unsupported("comprehension over symbolic iterable")

    # ------------------------------------------------------------------ builtin function table
    def _build_table(self):
        t = {}
        t[len] = self.b_len
        t[isinstance] = self.b_isinstance
        t[int.from_bytes] = self.int_from_bytes
        t[int] = self.b_int
        t[float] = self.b_float
        t[bytes] = self.b_bytes
        t[bytearray] = self.b_bytearray
        t[str] = self.b_str
        t[repr] = self.b_str
        t[bool] = lambda v=False: self.truth(v)
        t[round] = self.b_round
        t[hex] = self.b_hex
        t[range] = self.b_range
        t[enumerate] = lambda it, start=0: EnumView(it, start)
        t[print] = self.b_print
        t[getattr] = self.getattr_dyn
        t[setattr] = lambda o, n, v: self.set_attr(o, n, v)
        t[hasattr] = self.has_attr
        t[tuple] = self.b_tuple
        t[list] = self.b_list
        t[struct.pack] = self.b_struct_pack
        t[struct.unpack] = self.b_struct_unpack
        t[abs] = self.b_abs
        t[type] = lambda v: self.pytype(v)
        t[math.trunc] = self.b_int
        t[pow] = lambda a, b: self.binop(ast.Pow, a, b)
        t[min] = self.b_min
        t[max] = self.b_max
        return t

    def b_len(self, v):
        if hasattr(v, "item") and hasattr(v, "n") and isinstance(v, Sym):
            return SInt(v.n)
        if isinstance(v, SBytes):
            n = v.length()
            return n if isinstance(n, int) else SInt(n)
        if isinstance(v, Ref) and v.kind in ("list", "tuple"):
            return len(self.st.rec(v)["items"])
        if isinstance(v, Ref) and v.kind == "dict":
            return len(self.st.rec(v)["items"])
        if isinstance(v, KwMap):
            return self.kw_len(v)
        if isinstance(v, DictView):
            raise Unsupported("len(__dict__) of symbolic object")
        if isinstance(v, SStr):
            raise Unsupported("len of symbolic string")
        if isinstance(v, (SInt, SBool, SFloat)) or v is None or isinstance(v, (int, float)):
            self.raise_(TypeError, f"object of type '{self.pytype(v).__name__}' has no len()")
        try:
            return len(v)
        except TypeError as e:
            self.raise_(TypeError, str(e))

    def b_isinstance(self, v, classes):
        t = self.pytype(v)
        cl = classes if isinstance(classes, tuple) else (classes,)
        for c in cl:
            if not isinstance(c, type):
                self.raise_(TypeError, "isinstance() arg 2 must be a type, a tuple of types, or a union")
        return any(issubclass(t, c) for c in cl)

    def b_int(self, v=0, base=None):
        if base is not None:
            if isinstance(v, SStr) and len(v.pieces) == 1 and isinstance(v.pieces[0], HexOf) and base == 16:
                rope = v.pieces[0].rope
                if self.st.branch(mk_bool(zint(rope.length()) == 0)):
                    self.raise_(ValueError, "invalid literal for int() with base 16: ''")
                return self.int_from_bytes(rope, "big")
            if not is_symv(v) and not is_symv(base):
                try:
                    return int(v, base)
                except Exception as e:
                    self.raise_(type(e), str(e))
            raise Unsupported("int(symbolic, base)")
        if isinstance(v, SInt):
            return SInt(v.e)
        if isinstance(v, SBool):
            return mk_int(zint(v))
        if isinstance(v, SFloat):
            sh = v.shape
            if sh and sh[0] == "idiv":
                a, b = sh[1], sh[2]
                # int(a / b) for ints: truncation toward zero (A-PY: exact for |a|,|b| < 2**53 quotient range)
                if self.st.must(b > 0):
                    return mk_int(z3.If(a >= 0, a / b, -((-a) / b)))
                raise Unsupported("int(a/b) with non-positive divisor")
            # may raise for nan/inf (unless the run's precondition says the supplied floats are finite)
            if not self.st.ghost.get("finite_floats") and self.st.choice(2, "int-of-float-raises") == 0:
                if self.st.choice(2, "nan-or-inf") == 0:
                    self.raise_(ValueError, "cannot convert float NaN to integer")
                self.raise_(OverflowError, "cannot convert float infinity to integer")
            return SInt(f2i(v.e))
        if isinstance(v, SStr) and len(v.pieces) == 1 and isinstance(v.pieces[0], HexDigit):
            k = v.pieces[0].e
            if not self.st.must(z3.And(k >= 1, k < (1 << 32))):
                raise Unsupported("leading hex digit of an int outside 1 .. 2**32-1")
            d = z3.Int(fresh_name("hexdigit"))
            self.st.assume(mk_bool(z3.Or(*[z3.And(k >= (1 << (4 * m)), k < (1 << (4 * m + 4)), d == k / (1 << (4 * m)))
                                           for m in range(8)])))
            if self.st.branch(mk_bool(d >= 10)):
                self.raise_(ValueError, "invalid literal for int() with base 10: 'a'..'f'")
            return mk_int(d)
        if isinstance(v, (SBytes, SStr)):
            # int() of text the engine knows nothing about: either it is not a numeral (ValueError) or some integer
            if self.st.choice(2, "int-of-text") == 0:
                self.raise_(ValueError, "invalid literal for int() with base 10")
            return SInt(z3.Int(fresh_name("int_of_text")))
        if is_symv(v):
            self.raise_(TypeError, "int() argument must be a string, a bytes-like object or a real number")
        try:
            return int(v)
        except Exception as e:
            self.raise_(type(e), str(e))

    def b_float(self, v=0.0):
        if isinstance(v, SFloat):
            return v
        if isinstance(v, (SInt, SBool)):
            # float(int) raises OverflowError above ~1.8e308
            e = zint(v)
            big = 1 << 1024
            if self.st.branch(mk_bool(z3.Or(e >= big, e <= -big))):
                self.raise_(OverflowError, "int too large to convert to float")
            return SFloat(i2f(e), shape=("i2f", e))
        if is_symv(v):
            if isinstance(v, (SStr, SBytes)):
                if self.st.choice(2, "float-of-text") == 0:
                    self.raise_(ValueError, "could not convert string to float")
                return SFloat(z3.Const(fresh_name("f"), FSort))
            self.raise_(TypeError, "float() argument must be a string or a real number")
        try:
            return float(v)
        except Exception as e:
            self.raise_(type(e), str(e))

    def b_bytes(self, v=b"", *rest):
        if rest:
            raise Unsupported("bytes(x, encoding)")
        if isinstance(v, SBytes):
            return SBytes(v.segs, "bytes")
        if isinstance(v, (bytes, bytearray)):
            return bytes(v)
        if isinstance(v, Ref) and v.kind in ("list", "tuple"):
            v = tuple(self.st.rec(v)["items"])
        if isinstance(v, (tuple, list)):
            cells = []
            for x in v:
                if not self.is_int(x):
                    self.raise_(TypeError, "'%s' object cannot be interpreted as an integer" % self.pytype(x).__name__)
                if isinstance(x, int) and not isinstance(x, Sym):
                    if not 0 <= x <= 255:
                        self.raise_(ValueError, "bytes must be in range(0, 256)")
                    cells.append(z3.IntVal(int(x)))
                else:
                    xe = zint(x)
                    if self.st.branch(mk_bool(z3.Or(xe < 0, xe > 255))):
                        self.raise_(ValueError, "bytes must be in range(0, 256)")
                    cells.append(xe)
            if all(z3.is_int_value(c) for c in cells):
                return bytes(c.as_long() for c in cells)
            return SBytes.cells(cells)
        if isinstance(v, (SInt,)):
            raise Unsupported("bytes(symbolic count)")
        if is_symv(v):
            self.raise_(TypeError, "cannot convert object to bytes")
        try:
            return bytes(v)
        except Exception as e:
            self.raise_(type(e), str(e))

    def b_bytearray(self, v=b""):
        if isinstance(v, SBytes):
            return SBytes(v.segs, "bytearray")
        if isinstance(v, (bytes, bytearray)):
            return SBytes.lit(bytes(v), "bytearray")
        raise Unsupported("bytearray(x)")

    def b_str(self, v=""):
        if isinstance(v, (SStr,)):
            return v
        if is_symv(v) or isinstance(v, ExcVal):
            if isinstance(v, Ref) and v.kind == "obj" and getattr(v.cls, "__module__", "").startswith("pyubx2"):
                raise Unsupported("str() of a message object")
            return SStr((Opaque("str"),))
        return str(v)

    def b_round(self, v, nd=None):
        if isinstance(v, SFloat):
            if nd is None:
                raise Unsupported("round(float) to int")
            return SFloat(fround(v.e, zint(nd)), shape=("round", v, nd))
        if isinstance(v, (SInt, SBool)):
            if nd is None or (isinstance(nd, int) and nd >= 0):
                return mk_int(zint(v))
            raise Unsupported("round(int, negative digits)")
        if is_symv(v) or v is None:
            self.raise_(TypeError, f"type {self.pytype(v).__name__} doesn't define __round__ method")
        try:
            return round(v, nd) if nd is not None else round(v)
        except Exception as e:
            self.raise_(type(e), str(e))

    def b_hex(self, v):
        if isinstance(v, SInt):
            return SStr((HexInt(v.e),))
        if is_symv(v):
            self.raise_(TypeError, "object cannot be interpreted as an integer")
        try:
            return hex(v)
        except Exception as e:
            self.raise_(type(e), str(e))

    def b_range(self, *args):
        for a in args:
            if not self.is_int(a):
                self.raise_(TypeError, f"'{self.pytype(a).__name__}' object cannot be interpreted as an integer")
        if any(is_symv(a) for a in args):
            if len(args) == 1:
                return SymRange(0, args[0])
            if len(args) == 2:
                return SymRange(args[0], args[1])
            raise Unsupported("range with symbolic step")
        for a in args:
            if not isinstance(a, int):
                self.raise_(TypeError, f"'{self.pytype(a).__name__}' object cannot be interpreted as an integer")
        return range(*args)

    def b_print(self, *args, **kwargs):
        self.st.record_write(("ghost", "io"))
        return None

    def b_tuple(self, v=()):
        seq = self.concrete_iter(v)
        if seq is None:
            raise Unsupported("tuple of symbolic iterable")
        return tuple(seq)

    def b_list(self, v=()):
        seq = self.concrete_iter(v)
        if seq is None:
            raise Unsupported("list of symbolic iterable")
        return self.st.alloc("list", None, items=list(seq))

    def b_abs(self, v):
        if isinstance(v, SInt):
            return mk_int(z3.If(v.e >= 0, v.e, -v.e))
        if is_symv(v):
            raise Unsupported("abs")
        return abs(v)

    def b_min(self, *a):
        if len(a) == 2 and all(self.is_int(x) for x in a):
            return mk_int_raw(zmin(a[0] if not isinstance(a[0], SInt) else a[0].e, a[1] if not isinstance(a[1], SInt) else a[1].e))
        raise Unsupported("min")

    def b_max(self, *a):
        if len(a) == 2 and all(self.is_int(x) for x in a):
            return mk_int_raw(zmax(a[0] if not isinstance(a[0], SInt) else a[0].e, a[1] if not isinstance(a[1], SInt) else a[1].e))
        raise Unsupported("max")

    def b_struct_pack(self, fmt, *vals):
        if not isinstance(fmt, str):
            raise Unsupported("symbolic struct format")
        if all(deep_concrete(v) for v in vals):
            try:
                return struct.pack(fmt, *vals)
            except Exception as e:
                self.raise_(type(e), str(e))
        if fmt not in ("<f", "<d") or len(vals) != 1:
            raise Unsupported(f"struct.pack {fmt}")
        v = vals[0]
        if not isinstance(v, SFloat):
            if self.is_int(v):
                v = self.b_float(v)
            else:
                self.raise_(struct.error, "required argument is not a float")
        n = 4 if fmt == "<f" else 8
        if n == 4:
            from contracts.specs import FITS32
            if self.st.branch(mk_bool(z3.Not(FITS32(v.e)))):
                self.raise_(OverflowError, "float too large to pack with f format")
        cells = [PACKF(z3.IntVal(n), v.e, z3.IntVal(j)) for j in range(n)]  # a function of the float: deterministic
        for c in cells:
            self.st.assume(mk_bool(z3.And(c >= 0, c <= 255)))
        total = z3.Sum([c * (1 << (8 * i)) for i, c in enumerate(cells)])
        if n == 8:
            # IEEE-754 binary64: pack/unpack are inverse on floats (assumed, T-IEEE)
            self.st.assume(mk_bool(unpack_f(z3.IntVal(8), total) == v.e))
        return SBytes.cells(cells)

    def b_struct_unpack(self, fmt, data):
        if not isinstance(fmt, str):
            raise Unsupported("symbolic struct format")
        if not is_symv(data):
            try:
                return struct.unpack(fmt, data)
            except Exception as e:
                self.raise_(type(e), str(e))
        import re as _re
        INTF = {"b": (1, True), "B": (1, False), "h": (2, True), "H": (2, False), "i": (4, True), "I": (4, False),
                "l": (4, True), "L": (4, False), "q": (8, True), "Q": (8, False)}
        if _re.fullmatch(r"[<>!][bBhHiIlLqQ]+", fmt):
            # fixed-size integer fields in standard size, little or big endian
            if not isinstance(data, SBytes):
                self.raise_(TypeError, "a bytes-like object is required")
            total_n = sum(INTF[c][0] for c in fmt[1:])
            ln = data.length()
            if isinstance(ln, int):
                if ln != total_n:
                    self.raise_(struct.error, f"unpack requires a buffer of {total_n} bytes")
            elif self.st.branch(mk_bool(zint(ln) != total_n)):
                self.raise_(struct.error, f"unpack requires a buffer of {total_n} bytes")
            out, off = [], 0
            for c in fmt[1:]:
                w, signed = INTF[c]
                idx = range(w) if fmt[0] == "<" else range(w - 1, -1, -1)
                u = z3.Sum([data.at(off + k) * (1 << (8 * j)) for j, k in enumerate(idx)]) if w > 1 else data.at(off)
                if signed:
                    u = z3.If(u >= (1 << (8 * w - 1)), u - (1 << (8 * w)), u)
                out.append(mk_int(u))
                off += w
            return tuple(out)
        if fmt not in ("<f", "<d"):
            raise Unsupported(f"struct.unpack {fmt}")
        if not isinstance(data, SBytes):
            self.raise_(TypeError, "a bytes-like object is required")
        n = 4 if fmt == "<f" else 8
        ln = data.length()
        if isinstance(ln, int):
            if ln != n:
                self.raise_(struct.error, f"unpack requires a buffer of {n} bytes")
        elif self.st.branch(mk_bool(zint(ln) != n)):
            self.raise_(struct.error, f"unpack requires a buffer of {n} bytes")
        total = z3.Sum([data.at(k) * (1 << (8 * k)) for k in range(n)])
        return (SFloat(unpack_f(z3.IntVal(n), total), shape=("unpack", n, total)),)


PACKF = z3.Function("packf", IntS, FSort, IntS, IntS)  # (width, float, byte index) -> byte of struct.pack


class ReprOf:
    """piece of SStr: repr()/str() of a symbolic bytes or int value (what an f-string interpolates)"""
    __slots__ = ("val",)

    def __init__(self, val):
        self.val = val

    def __repr__(self):
        return f"ReprOf({self.val!r})"


class HexDigit:
    """piece of SStr: the first hex digit of hex(int)"""
    __slots__ = ("e",)

    def __init__(self, e):
        self.e = e


class HexInt:
    """piece of SStr: hex(int) e.g. '0x20930001'"""
    __slots__ = ("e",)

    def __init__(self, e):
        self.e = e


class SymRange:
    def __init__(self, lo, hi):
        self.lo = lo
        self.hi = hi


class EnumView:
    def __init__(self, inner, start=0):
        self.inner = inner
        self.start = start


class DictView:
    """obj.__dict__ of a heap object"""

    def __init__(self, ref):
        self.ref = ref


class SpecFn:
    """a specification function usable in contract expressions"""

    def __init__(self, name, fn, native=None):
        self.name = name
        self.fn = fn
        self.native = native


def _pow2_factor(e):
    """k if the term is syntactically c * t with c == 2^k (k >= 1), else None"""
    try:
        if z3.is_mul(e) and e.num_args() == 2 and z3.is_int_value(e.arg(0)):
            c = e.arg(0).as_long()
            if c > 1 and c & (c - 1) == 0:
                return c.bit_length() - 1
    except Exception:
        pass
    return None


def is_symv(v):
    return isinstance(v, (Sym, Ref, KwMap, BoundMethod, SymRange, DictView, EnumView))


def deep_concrete(v):
    if is_symv(v) or isinstance(v, ExcVal):
        return False
    if isinstance(v, (tuple, list)):
        return all(deep_concrete(x) for x in v)
    if isinstance(v, dict):
        return all(deep_concrete(x) for x in v.values())
    return True


def mk_int_raw(e):
    if isinstance(e, int):
        return e
    return mk_int(e)


def _zi(e):
    """int if numeral else simplified z3 term"""
    if isinstance(e, int):
        return e
    c = as_const_int(e)
    return c if c is not None else z3.simplify(e)


from . import extract  # noqa: E402
