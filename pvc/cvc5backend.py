"""second back end: cvc5 (CLI) on the SMT-LIB2 text z3 prints; used for VCs z3 leaves `unknown`
and, in the thorough tier, to re-check discharged VCs."""
import os
import shutil
import subprocess
import tempfile


def check_smt2(text: str, timeout_ms: int) -> str:
    exe = shutil.which("cvc5") or "/usr/bin/cvc5"
    if not os.path.exists(exe):
        return "unavailable"
    text = text.replace("(set-info :status unknown)", "")
    if "(check-sat)" not in text:
        text += "\n(check-sat)\n"
    with tempfile.NamedTemporaryFile("w", suffix=".smt2", delete=False, dir=os.environ.get("PVC_TMP")) as f:
        f.write("(set-logic ALL)\n" + text)
        path = f.name
    try:
        r = subprocess.run([exe, "--lang=smt2", f"--tlimit={timeout_ms}", path], capture_output=True, text=True,
                           timeout=timeout_ms / 1000 + 10)
        out = (r.stdout or "").strip().splitlines()
        for line in out:
            if line.strip() in ("sat", "unsat", "unknown"):
                return line.strip()
        return "error:" + ((r.stderr or r.stdout or "")[:600].replace("\n", " "))
    except subprocess.TimeoutExpired:
        return "timeout"
    finally:
        try:
            os.unlink(path)
        except OSError:
            pass
