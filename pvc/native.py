"""
Native (CPython) evaluation of contracts on the real code: used to replay counter-models and for the
differential test of the engine.  The same clause text that is turned into a VC is evaluated here with
the executable spec functions.
"""
from __future__ import annotations

import ast
import importlib
import sys

from . import extract
from .contracts import parse_expr, old_subexprs


def resolve(qualname):
    """real function object for a qualified name"""
    parts = qualname.split(".")
    for cut in range(len(parts) - 1, 0, -1):
        try:
            obj = importlib.import_module(".".join(parts[:cut]))
        except ImportError:
            continue
        for p in parts[cut:]:
            raw = obj.__dict__.get(p) if isinstance(obj, type) else None
            obj = getattr(obj, p)
        return obj
    raise KeyError(qualname)


class _OldToName(ast.NodeTransformer):
    def __init__(self, table):
        self.table = table

    def visit_Call(self, n):
        if isinstance(n.func, ast.Name) and n.func.id == "old" and len(n.args) == 1:
            key = ast.dump(n.args[0])
            return ast.copy_location(ast.Name(id=self.table[key], ctx=ast.Load()), n)
        return self.generic_visit(n)


def native_env(reg, module, extra=None):
    env = dict(module.__dict__) if module is not None else {}
    env.update(reg.native_specs)
    if extra:
        env.update(extra)
    return env


def eval_clause(text, env, olds):
    import copy
    node = _OldToName(olds).visit(copy.deepcopy(parse_expr(text)))
    expr = ast.Expression(body=node)
    ast.fix_missing_locations(expr)
    return eval(compile(expr, "<clause>", "eval"), env)


def check_contract_natively(reg, contract, call, params_env, module, self_obj=None):
    """run `call()` (the real function on concrete inputs) and evaluate every clause of the contract.
    Returns (violations: list[str], observed: str)."""
    clauses = [t for _, t in contract.ensures] + [t for _, t in contract.ensures_exc] + \
              [t for t in contract.raises.values() if t] + list(contract.raises_iff.values())
    env = native_env(reg, module, params_env)
    olds = {}
    oldvals = {}
    for t in clauses:
        for oc in old_subexprs(parse_expr(t)):
            key = ast.dump(oc.args[0])
            if key not in olds:
                nm = f"__old_{len(olds)}"
                olds[key] = nm
                try:
                    oldvals[nm] = eval(compile(ast.fix_missing_locations(ast.Expression(body=oc.args[0])), "<old>", "eval"), env)
                except Exception as e:  # noqa
                    oldvals[nm] = None
    env.update(oldvals)
    # precondition
    for lab, t in contract.requires:
        try:
            if not eval_clause(t, env, olds):
                return None, f"precondition {lab} false"
        except Exception as e:
            return None, f"precondition {lab} raised {type(e).__name__}"
    violations = []
    try:
        res = call()
        outcome = ("return", res)
    except BaseException as e:  # the real code's exception
        if isinstance(e, (KeyboardInterrupt, SystemExit)):
            raise
        outcome = ("raise", e)
    if outcome[0] == "return":
        env["result"] = outcome[1]
        observed = f"returned {outcome[1]!r}"[:300]
        for cname, cond in contract.raises_iff.items():
            try:
                if eval_clause(cond, env, olds):
                    violations.append(f"raises-iff:{cname}: returned normally although `{cond}`")
            except Exception as e:
                pass
        for lab, t in contract.ensures:
            try:
                ok = eval_clause(t, env, olds)
            except Exception as e:
                ok = False
                lab = f"{lab} (clause raised {type(e).__name__}: {e})"
            if not ok:
                violations.append(f"ensures:{lab}")
    else:
        e = outcome[1]
        env["exc"] = e
        observed = f"raised {type(e).__name__}: {e}"[:300]
        allowed = None
        for name in contract.raises:
            if any(c.__name__ == name for c in type(e).__mro__):
                allowed = name
        if allowed is None:
            violations.append(f"raises:only-declared: {type(e).__name__} escapes")
        else:
            cond = contract.raises[allowed]
            if cond:
                try:
                    if not eval_clause(cond, env, olds):
                        violations.append(f"raises:{allowed}:when")
                except Exception:
                    pass
            for lab, t in contract.ensures_exc:
                try:
                    if not eval_clause(t, env, olds):
                        violations.append(f"ensures-exc:{lab}")
                except Exception as ee:
                    violations.append(f"ensures-exc:{lab} (clause raised {type(ee).__name__})")
    return violations, observed
