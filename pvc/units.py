"""
Verification units: the jobs a property check is made of.  Each unit runs in a worker process and returns
a picklable UnitResult.  Kinds:
  func      one real function (or family member) against its contract              -> proof obligations
  lemma     an SMT lemma over contracts (calls go by contract)                     -> proof obligations
  custom    engine-driven unit (instance mode, relational mode)                    -> proof obligations
  ground    closed obligation evaluated by concrete execution (exhaustive table enumeration)
  bounded   bounded stand-in (native enumeration / sampling): reported separately, never counted as proved
"""
from __future__ import annotations

import os
import time
import traceback


class ObRec:
    """picklable obligation record"""
    __slots__ = ("name", "kind", "status", "time", "detail", "inputs", "backend", "unit", "path", "unconfirmed")

    def __init__(self, name, kind, status, t=0.0, detail="", inputs=None, backend="z3", unit="", path=None, unconfirmed=False):
        self.unconfirmed = unconfirmed
        self.name = name
        self.kind = kind
        self.status = status  # 'unsat' discharged | 'sat' failed | 'unknown'
        self.time = t
        self.detail = detail
        self.inputs = inputs
        self.backend = backend
        self.unit = unit
        self.path = path

    def to_json(self):
        return {"name": self.name, "kind": self.kind, "status": self.status, "time_s": round(self.time, 4),
                "detail": self.detail[:300], "backend": self.backend}


class UnitResult:
    def __init__(self, unit_name, kind):
        self.unit = unit_name
        self.kind = kind
        self.obligations = []  # ObRec
        self.unsupported = []  # str
        self.error = None  # engine crash text
        self.wall = 0.0
        self.solver_s = 0.0
        self.queries = 0
        self.by_backend = {}
        self.paths = 0
        self.outcomes = {}
        self.functions = []  # qualified names of real functions whose bodies were executed
        self.callees = []  # (caller, callee, contract|body)
        self.bounded = None  # {'what':..., 'bound':..., 'cases': n, 'failures': [...], 'exhaustive': bool}
        self.replay_hint = None
        self.info = {}


class Unit:
    kind = "func"

    def __init__(self, name, props=()):
        self.name = name
        self.props = tuple(props)
        self.cost = 1.0  # scheduling hint

    def run(self, ctx) -> UnitResult:
        raise NotImplementedError


def _collect(res, col, reg, unit_name):
    from .state import STATS
    for o in col.obligations:
        res.obligations.append(ObRec(o.name, o.kind, o.status, o.time, o.detail, o.inputs, o.backend, unit_name, o.path,
                                     getattr(o, "unconfirmed", False)))
    for fn, msg in col.unsupported:
        res.unsupported.append(f"{fn}: {msg}")
    res.paths = sum(f.paths for f in col.functions.values())
    for f in col.functions.values():
        for k, v in f.outcomes.items():
            res.outcomes[k] = res.outcomes.get(k, 0) + v
    seen = set()
    for (caller, callee, pol) in reg.callee_log:
        if (caller, callee, pol) not in seen:
            seen.add((caller, callee, pol))
            res.callees.append((caller, callee, pol))
    res.functions = sorted({c for (c, _, _) in seen} | {cal for (_, cal, pol) in seen if pol == "body"})


class FuncUnit(Unit):
    """verify the real body of one function against its contract (mode M)"""
    kind = "func"

    def __init__(self, qualname, member=None, props=(), label=None, override=None, max_paths=None):
        self.qualname = qualname
        self.member = member
        lab = label or (f"{qualname}[{member}]" if member is not None else qualname)
        super().__init__(lab, props)
        self.override = override  # canaries: (module name, new source text)
        self.max_paths = max_paths

    def run(self, ctx):
        from .verify import Collector, verify_function
        from .state import STATS
        res = UnitResult(self.name, self.kind)
        reg = ctx.registry()
        col = Collector()
        t0 = time.time()
        s0, q0 = STATS.solver_s, STATS.queries
        b0 = dict(STATS.by_backend)
        if self.member is not None:
            contract = reg.families[self.qualname][1][self.member]
        else:
            contract = reg.contracts[self.qualname]
        kw = {}
        if self.max_paths:
            kw["max_paths"] = self.max_paths
        verify_function(reg, contract, col, label=self.name, **kw)
        _collect(res, col, reg, self.name)
        if self.qualname not in res.functions:
            res.functions.append(self.qualname)
        res.wall = time.time() - t0
        res.solver_s = STATS.solver_s - s0
        res.queries = STATS.queries - q0
        res.by_backend = {k: v - b0.get(k, 0) for k, v in STATS.by_backend.items()}
        return res


class LemmaUnit(Unit):
    """prove `goal` (a clause over real functions used by contract, and spec functions) under `requires`"""
    kind = "lemma"

    def __init__(self, name, module, params, requires, goal, props=(), setup=None, allow=()):
        super().__init__(name, props)
        self.allow = tuple(allow)
        self.module = module
        self.params = params
        self.requires = requires
        self.goal = goal
        self.setup = setup

    def run(self, ctx):
        from .verify import Collector, verify_lemma
        from .state import STATS
        res = UnitResult(self.name, self.kind)
        reg = ctx.registry()
        col = Collector()
        t0 = time.time()
        s0, q0 = STATS.solver_s, STATS.queries
        b0 = dict(STATS.by_backend)
        verify_lemma(reg, self.name, self.module, self.params, self.requires, self.goal, col, setup=self.setup,
                     allow=self.allow)
        _collect(res, col, reg, self.name)
        res.wall = time.time() - t0
        res.solver_s = STATS.solver_s - s0
        res.queries = STATS.queries - q0
        res.by_backend = {k: v - b0.get(k, 0) for k, v in STATS.by_backend.items()}
        return res


class CustomUnit(Unit):
    """engine-driven unit: fn(ctx, res, collector, registry) explores paths itself"""
    kind = "custom"

    def __init__(self, name, fn, args=(), props=(), cost=1.0):
        super().__init__(name, props)
        self.fn = fn
        self.args = args
        self.cost = cost

    def run(self, ctx):
        from .verify import Collector
        from .state import STATS
        res = UnitResult(self.name, self.kind)
        reg = ctx.registry()
        col = Collector()
        t0 = time.time()
        s0, q0 = STATS.solver_s, STATS.queries
        b0 = dict(STATS.by_backend)
        self.fn(ctx, res, col, reg, *self.args)
        _collect(res, col, reg, self.name)
        res.wall = time.time() - t0
        res.solver_s = STATS.solver_s - s0
        res.queries = STATS.queries - q0
        res.by_backend = {k: v - b0.get(k, 0) for k, v in STATS.by_backend.items()}
        return res


class GroundUnit(Unit):
    """closed obligations decided by concrete evaluation: fn(ctx) yields (name, ok: bool, detail, witness)"""
    kind = "ground"

    def __init__(self, name, fn, args=(), props=()):
        super().__init__(name, props)
        self.fn = fn
        self.args = args

    def run(self, ctx):
        res = UnitResult(self.name, self.kind)
        t0 = time.time()
        for (name, ok, detail, witness) in self.fn(ctx, *self.args):
            unconf = bool(isinstance(witness, dict) and witness.pop("_unconfirmed", False))
            res.obligations.append(ObRec(name, "ground", "unsat" if ok else "sat", 0.0, detail, witness, "eval", self.name,
                                         unconfirmed=unconf and not ok))
        res.wall = time.time() - t0
        return res


class BoundedUnit(Unit):
    """bounded stand-in; fn(ctx, tier, seed) -> dict(what, bound, cases, failures=[...], exhaustive)"""
    kind = "bounded"

    def __init__(self, name, fn, args=(), props=()):
        super().__init__(name, props)
        self.fn = fn
        self.args = args

    def run(self, ctx):
        res = UnitResult(self.name, self.kind)
        t0 = time.time()
        res.bounded = self.fn(ctx, *self.args)
        res.wall = time.time() - t0
        return res


class Ctx:
    """per-process context: builds the registry (contracts + specs) once per worker"""

    def __init__(self, tier="quick", seed=0):
        self.tier = tier
        self.seed = seed
        self._reg = None

    def registry(self):
        from .contracts import Registry
        import contracts.specs as specs
        import contracts.helpers as helpers
        import contracts.message as message
        import contracts.reader as reader
        reg = Registry()
        specs.install(reg)
        helpers.install(reg)
        message.install(reg)
        reader.install(reg)
        reader.install_socket(reg)
        reader.install_iter(reg)
        from .models_io import logging_getlogger_model
        reg.models["logging.getLogger"] = logging_getlogger_model
        reg.models["pyubx2.ubxreader.UBXReader.read"] = reader.read_result_model  # as seen by __next__
        from . import configdb
        configdb.install(reg)
        reg.models["pyubx2.ubxhelpers.cfgname2key"] = configdb.model_cfgname2key  # symbolic keys only, else contract
        reg.models["pyubx2.ubxhelpers.cfgkey2name"] = configdb.model_cfgkey2name
        try:
            import contracts.instance as instance
            instance.install(reg)
        except ImportError:
            pass
        return reg


_CTX = None


def _worker_init(tier, seed, verif_dir):
    global _CTX
    import sys
    if verif_dir not in sys.path:
        sys.path.insert(0, verif_dir)
    _CTX = Ctx(tier, seed)


class UnitTimeout(BaseException):
    pass


def _alarm(sig, frm):
    raise UnitTimeout()


def _run_unit(unit):
    from . import extract
    import signal
    t0 = time.time()
    budget = _unit_budget(_CTX.tier if _CTX else "thorough")
    try:
        signal.signal(signal.SIGALRM, _alarm)
        signal.alarm(budget)
    except (ValueError, AttributeError):
        pass
    try:
        return _run_unit_inner(unit)
    except UnitTimeout:
        # an obligation record stands for the unit, so that the check can try the unit's native replayer / search
        return _timeout_result(unit, budget, time.time() - t0, "solver or path explosion")
    finally:
        try:
            signal.alarm(0)
        except (ValueError, AttributeError):
            pass


def _run_unit_inner(unit):
    from . import extract
    t0 = time.time()
    try:
        if getattr(unit, "override", None):
            extract.set_override(*unit.override)
        try:
            r = unit.run(_CTX)
        finally:
            if getattr(unit, "override", None):
                extract.clear_overrides()
        return r
    except BaseException as e:  # engine crash: exit 3 material, never a verdict
        if isinstance(e, (KeyboardInterrupt, UnitTimeout)):
            raise
        tb = "".join(traceback.format_exception(type(e), e, e.__traceback__))
        if "UnitTimeout" in tb:
            # the alarm fired inside a ctypes callback of the solver API: the timeout surfaces wrapped in ArgumentError
            raise UnitTimeout() from None
        r = UnitResult(unit.name, unit.kind)
        r.error = "".join(traceback.format_exception(type(e), e, e.__traceback__))[-3000:]
        r.wall = time.time() - t0
        return r


def _cache_path(unit, tier, digest):
    import hashlib
    verif_dir = os.path.dirname(os.path.dirname(os.path.abspath(__file__)))
    key = hashlib.sha256(f"{unit.name}|{getattr(unit, 'args', ())!r}|{tier}".encode()).hexdigest()[:24]
    return os.path.join(verif_dir, ".cache", "units", digest[:32], key + ".pkl")


def run_units(units, tier, seed, jobs=None, digest=None):
    """run units in a process pool; returns list of UnitResult in unit order.
    Units marked `cacheable` (instance units: pure functions of the sources under analysis, the engine and the sidecar)
    are looked up in a content-addressed cache keyed by the sha256 of all those files, the unit's name/arguments and
    the tier; a hit is the result of the identical computation on identical inputs by an earlier check of this tree."""
    import multiprocessing as mp
    import pickle
    verif_dir = os.path.dirname(os.path.dirname(os.path.abspath(__file__)))
    cached = {}
    if digest and not os.environ.get("PVC_NO_CACHE"):
        for i, u in enumerate(units):
            if getattr(u, "cacheable", False) and not getattr(u, "canary", None):
                pth = _cache_path(u, tier, digest)
                if os.path.exists(pth):
                    try:
                        with open(pth, "rb") as f:
                            r = pickle.load(f)
                        r.info["cache_hit"] = True
                        cached[i] = r
                    except Exception:  # noqa
                        pass
    if cached:
        todo = [i for i in range(len(units)) if i not in cached]
        sub = run_units([units[i] for i in todo], tier, seed, jobs, digest=None)
        out = [None] * len(units)
        for i, r in cached.items():
            out[i] = r
        for i, r in zip(todo, sub):
            out[i] = r
            _store(units[i], r, tier, digest)
        return out
    out = _run_units_nocache(units, tier, seed, jobs)
    if digest and not os.environ.get("PVC_NO_CACHE"):
        for u, r in zip(units, out):
            _store(u, r, tier, digest)
    return out


def _store(u, r, tier, digest):
    import pickle
    if not (digest and getattr(u, "cacheable", False)) or getattr(u, "canary", None) or r.error or r.info.get("cache_hit"):
        return
    if any("time budget" in (o.detail or "") for o in r.obligations):
        return
    pth = _cache_path(u, tier, digest)
    try:
        os.makedirs(os.path.dirname(pth), exist_ok=True)
        tmp = pth + f".{os.getpid()}.tmp"
        with open(tmp, "wb") as f:
            pickle.dump(r, f)
        os.replace(tmp, pth)
    except Exception:  # noqa
        pass


def _run_units_nocache(units, tier, seed, jobs=None):
    import multiprocessing as mp
    verif_dir = os.path.dirname(os.path.dirname(os.path.abspath(__file__)))
    jobs = jobs or int(os.environ.get("PVC_JOBS", "0")) or min(16, os.cpu_count() or 1)
    order = sorted(range(len(units)), key=lambda i: -units[i].cost)
    if jobs <= 1 or len(units) <= 1:
        _worker_init(tier, seed, verif_dir)
        out = [_run_unit(u) for u in units]
        return out
    results = _supervised_map([units[i] for i in order], tier, seed, verif_dir, jobs)
    out = [None] * len(units)
    for i, r in zip(order, results):
        out[i] = r
    return out


def _unit_budget(tier):
    return int(os.environ.get("PVC_UNIT_TIMEOUT", "0")) or (420 if tier == "quick" else 5400)


def _timeout_result(unit, budget, wall, how):
    r = UnitResult(unit.name, unit.kind)
    r.obligations.append(ObRec(f"{unit.name}/unit-not-decided-in-time", "timeout", "unknown", wall,
                               f"unit exceeded its time budget of {budget}s ({how})", None, "none", unit.name))
    r.wall = wall
    return r


def _worker_loop(conn, units, tier, seed, verif_dir):
    import pickle
    _worker_init(tier, seed, verif_dir)
    while True:
        try:
            idx = conn.recv()
        except (EOFError, OSError):
            return
        if idx is None:
            return
        r = _run_unit(units[idx])
        try:
            conn.send_bytes(pickle.dumps((idx, r)))
        except Exception as e:  # noqa  unpicklable result: report as engine error rather than dying silently
            rr = UnitResult(units[idx].name, units[idx].kind)
            rr.error = f"result of unit not transferable: {type(e).__name__}: {e}"
            conn.send_bytes(pickle.dumps((idx, rr)))


def _supervised_map(units, tier, seed, verif_dir, jobs):
    """process pool with a hard per-unit watchdog.  multiprocessing.Pool waits for ever when a worker dies (a solver
    crash) and SIGALRM is not delivered while the solver's native code runs, so the parent supervises: a unit that
    overruns its budget by more than the grace period is killed and recorded as *not decided in time* (undecided, never
    a verdict); a worker that dies is replaced and the unit is retried once, then recorded as an engine error."""
    import multiprocessing as mp
    import pickle
    from multiprocessing.connection import wait
    ctx = mp.get_context("fork")
    budget = _unit_budget(tier)
    grace = 45
    n = len(units)
    results = [None] * n
    queue = list(range(n))
    queue.reverse()  # pop() takes the most expensive first (units are cost-sorted)
    tries = [0] * n
    workers = {}  # conn -> [proc, idx or None, t_start]

    def spawn():
        pc, cc = ctx.Pipe()
        p = ctx.Process(target=_worker_loop, args=(cc, units, tier, seed, verif_dir), daemon=True)
        p.start()
        cc.close()
        workers[pc] = [p, None, 0.0]
        return pc

    def assign(pc):
        if not queue:
            return False
        idx = queue.pop()
        tries[idx] += 1
        workers[pc][1] = idx
        workers[pc][2] = time.time()
        pc.send(idx)
        return True

    def retire(pc, kill=False):
        p = workers.pop(pc)[0]
        try:
            if kill and p.is_alive():
                p.kill()
            else:
                try:
                    pc.send(None)
                except Exception:  # noqa
                    pass
            pc.close()
        except Exception:  # noqa
            pass
        p.join(5)
        if p.is_alive():
            p.kill()
            p.join(5)

    for _ in range(min(jobs, n)):
        assign(spawn())
    done = 0
    while done < n:
        busy = [pc for pc, w in workers.items() if w[1] is not None]
        if not busy:
            if queue:
                assign(spawn())
                continue
            break
        ready = wait(busy, timeout=2.0)
        now = time.time()
        for pc in ready:
            w = workers[pc]
            idx = w[1]
            try:
                ridx, r = pickle.loads(pc.recv_bytes())
                results[ridx] = r
                done += 1
                w[1] = None
                if not assign(pc):
                    retire(pc)
            except (EOFError, OSError, pickle.UnpicklingError) as e:
                # the worker died while running unit idx
                code = w[0].exitcode
                retire(pc, kill=True)
                if tries[idx] < 2:
                    queue.append(idx)
                else:
                    r = UnitResult(units[idx].name, units[idx].kind)
                    r.error = f"worker process died twice while running this unit (exit code {code}, {type(e).__name__})"
                    results[idx] = r
                    done += 1
                if queue:
                    assign(spawn())
        for pc in list(workers):
            w = workers.get(pc)
            if w is None or w[1] is None:
                continue
            if now - w[2] > budget + grace:
                idx = w[1]
                retire(pc, kill=True)
                results[idx] = _timeout_result(units[idx], budget, now - w[2], "worker killed by the supervisor: "
                                               "the solver's native code did not return")
                done += 1
                if queue:
                    assign(spawn())
    for pc in list(workers):
        retire(pc)
    for i in range(n):
        if results[i] is None:
            r = UnitResult(units[i].name, units[i].kind)
            r.error = "unit was not run (supervisor ended early)"
            results[i] = r
    return results


def factory_unit(ctx, res, col, reg, module, factory, arg, label):
    """verify a function against a contract built by a sidecar factory (variants of a contract)"""
    import importlib
    from .verify import verify_function
    c = getattr(importlib.import_module(module), factory)(arg)
    if getattr(c, "registry_setup", None):
        c.registry_setup(reg)
    if "UBXMessage" in c.qualname:
        reg.force_inline.update({"pyubx2.ubxmessage.UBXMessage.__setattr__"})
    verify_function(reg, c, col, label=label)
    res.functions.append(c.qualname)
