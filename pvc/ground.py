"""
Ground obligations: closed terms decided by concrete evaluation over the working tree's tables (exhaustive
enumeration), and native executions of the real code on concrete inputs derived from the tables.
"""
from __future__ import annotations

import re

from . import extract


def _tables():
    core = extract.load_module("pyubx2.ubxtypes_core")[0]
    get = extract.load_module("pyubx2.ubxtypes_get")[0].UBX_PAYLOADS_GET
    set_ = extract.load_module("pyubx2.ubxtypes_set")[0].UBX_PAYLOADS_SET
    poll = extract.load_module("pyubx2.ubxtypes_poll")[0].UBX_PAYLOADS_POLL
    return core, {"GET": get, "SET": set_, "POLL": poll}


def wf_definitions(ctx, inject=None):
    """WF(def) for every entry of the three payload tables (DESIGN 3.3).  `inject` (canaries only) adds an
    ill-formed definition to the enumerated copy of the tables."""
    from contracts.oracle import wf_violations
    from .instance import class_attr_names
    core, tabs = _tables()
    cnames = class_attr_names()
    rules = ["grammar", "variable-group-last", "variable-group-size", "group-size-earlier-attribute",
             "group-size-integer", "group-static", "nested-group-fixed", "ch-sole", "names-unique", "hp-base",
             "names-public", "names-no-collision", "names-injective", "keyword-names-unique"]
    if inject:
        tabs = {k: dict(v) for k, v in tabs.items()}
        tabs["GET"]["CANARY-" + inject] = {"length-field": {"iTOW": "U004", "length": "U001"},
                                            "dup-flag": {"a": ("X001", {"f": "U001"}), "b": ("X001", {"f": "U001"})},
                                            "late-count": {"grp": ("n", {"x": "U001"}), "n": "U001"}}[inject]
    for mode, tab in tabs.items():
        for name, defn in tab.items():
            v = wf_violations(name, defn, cnames)
            byrule = {}
            for rule, detail in v:
                byrule.setdefault(rule, []).append(detail)
            for rule in rules:
                ds = byrule.get(rule, [])
                yield (f"WF[{mode} {name}]:{rule}", not ds, "; ".join(ds)[:400], {"definition": name, "mode": mode})


def reachability(ctx):
    """every payload definition is reachable from the message-ID table or from a variant selector"""
    core, tabs = _tables()
    names = set(core.UBX_MSGIDS.values())
    vsrc = extract.module_source("pyubx2.ubxvariants")
    for mode, tab in tabs.items():
        for name in tab:
            ok = name in names or f'"{name}"' in vsrc
            yield (f"reachable[{mode} {name}]", ok, "" if ok else "declared but not reachable from UBX_MSGIDS or VARIANTS",
                   {"definition": name})
    # message names unique: two IDs under one name make the name-addressed constructor ambiguous
    seen = {}
    for k, v in core.UBX_MSGIDS.items():
        seen.setdefault(v, []).append(k)
    for v, ks in sorted(seen.items()):
        yield (f"msgid-name-unique[{v}]", len(ks) == 1, "" if len(ks) == 1 else f"{v} names IDs {[k.hex() for k in ks]}",
               {"name": v})
    for k in core.UBX_MSGIDS:
        yield (f"msgid-class-known[{k.hex()}]", k[0:1] in core.UBX_CLASSES, "", {"key": k.hex()})


def configdb_rules(ctx):
    cdb = extract.load_module("pyubx2.ubxtypes_configdb")[0]
    db, stor = cdb.UBX_CONFIG_DATABASE, cdb.UBX_CONFIG_STORSIZE
    byid = {}
    for name, (kid, typ) in db.items():
        ok_t = bool(re.fullmatch(r"[EILRUX]\d{3}", typ))
        yield (f"cfgdb[{name}]:type-valid", ok_t, f"type {typ}", {"key": name})
        code = (kid >> 28) & 7
        yield (f"cfgdb[{name}]:width-is-size-code", ok_t and stor.get(code) == int(typ[1:4]),
               f"type {typ} but size code {code} prescribes {stor.get(code)} bytes", {"key": name})
        yield (f"cfgdb[{name}]:id-32bit", 0 < kid < (1 << 31), hex(kid), {"key": name})
        yield (f"cfgdb[{name}]:name-prefix", name.startswith("CFG_"), "", {"key": name})
        byid.setdefault(kid, []).append(name)
    for kid, names in sorted(byid.items()):
        yield (f"cfgdb-id-unique[{hex(kid)}]", len(names) == 1,
               "" if len(names) == 1 else f"key ID {hex(kid)} is declared for {names}: ID-to-name lookup returns the first only",
               {"id": hex(kid)})


def nominal_instances(ctx):
    """a nominal instance of every declared (message, mode) can be built from keywords and parsed back (native run)"""
    core, tabs = _tables()
    from pyubx2 import UBXMessage, UBXReader
    modes = {"GET": 0, "SET": 1, "POLL": 2}
    names2key = {}
    for k, v in core.UBX_MSGIDS.items():
        names2key.setdefault(v, k)
    for mode, tab in tabs.items():
        for name, defn in tab.items():
            key = names2key.get(name)
            if key is None:
                continue  # variant definitions are reached through their selector with discriminating keywords
            kw = {}
            first = next(iter(defn), None)
            if len(key) == 3:
                kw["type"] = key[2]
            if first is not None and not kw:
                spec = defn[first]
                if isinstance(spec, str) and spec[0] in "UIEL":
                    kw[first] = 0
                elif isinstance(spec, list):
                    kw[first] = 0
                elif isinstance(spec, str) and spec[0] in "XC" and spec != "CH":
                    kw[first] = bytes(int(spec[1:4]))
                else:
                    kw["__dummy__"] = 0
            ok, detail = True, ""
            try:
                try:
                    m = UBXMessage(key[0:1], key[1:2], modes[mode], **kw) if kw else UBXMessage(key[0:1], key[1:2], modes[mode])
                except Exception as e1:  # noqa
                    if "must include payload keyword" not in str(e1):
                        raise
                    # output-only messages whose variant is selected by the payload: nominal payload of zeros
                    from contracts.oracle import parse_def, static_size
                    n = static_size([e for e in parse_def(defn) if not (hasattr(e, "count") and e.count == "None")]) or 0
                    m = UBXMessage(key[0:1], key[1:2], modes[mode], payload=bytes(n))
                p = UBXReader.parse(m.serialize(), msgmode=modes[mode])
                if p.serialize() != m.serialize() or p.identity != m.identity:
                    ok, detail = False, "parsed message differs from the built one"
            except Exception as e:  # noqa
                ok, detail = False, f"{type(e).__name__}: {e}"[:200]
            yield (f"nominal[{mode} {name}]", ok, detail, {"definition": name, "kwargs": repr(kw)})


def translation_complete(ctx):
    """the constructor turns every exception its callees can raise into UBXTypeError / UBXMessageError.
    Modular step at the level of exception classes: the raise-sets of the callees are what their contracts declare (and
    what is proved of their bodies: val2bytes per type x value kind, _set_attribute_single, _set_attribute_bits ...);
    the handlers of the try statement in the real `_do_attributes` must cover every one of those classes (by
    subclassing), except the library's own error classes, which may pass."""
    import ast
    import builtins
    import struct
    from contracts.helpers import TRANSLATED
    finfo = extract.get_function("pyubx2.ubxmessage.UBXMessage._do_attributes")
    mod = extract.load_module("pyubx2.ubxmessage")[0]
    tries = [n for n in ast.walk(finfo.node) if isinstance(n, ast.Try)]
    handled = []
    for t in tries:
        for h in t.handlers:
            if h.type is None:
                handled.append(BaseException)
                continue
            elts = h.type.elts if isinstance(h.type, ast.Tuple) else [h.type]
            for e in elts:
                try:
                    cls = eval(compile(ast.Expression(body=e), "<handler>", "eval"), vars(mod))
                except Exception:  # noqa
                    cls = None
                if isinstance(cls, type):
                    # a handler only counts if it re-raises a library error (every handler here does: checked below)
                    handled.append(cls)
            ok_body = any(isinstance(x, ast.Raise) for x in ast.walk(h))
            yield (f"translation[_do_attributes]:handler-raises-library-error:{ast.unparse(h.type)[:40] if h.type else 'bare'}",
                   ok_body, "the handler raises (a library error) instead of swallowing", {"handler": ast.unparse(h.type) if h.type else ""})
    ns = {"error": struct.error}
    for name in TRANSLATED:
        if name.startswith("UBX"):
            continue
        cls = ns.get(name) or getattr(builtins, name, None)
        covered = isinstance(cls, type) and any(issubclass(cls, h) for h in handled)
        yield (f"translation[_do_attributes]:{name}", covered,
               f"{name} (in the proved raise-set of the attribute setters / val2bytes) is caught by the constructor's handlers "
               f"{sorted(h.__name__ for h in handled)}", {"exception": name})
