"""
Property check driver:  python -m pvc.check <ID> quick|thorough

exit 0  every obligation mapped to the property discharged (known findings reported as KNOWN-FINDING)
exit 1  an obligation failed (counter-model / failed ground check): VIOLATION line(s) printed
exit 2  undecided (unknown, timeout, unsupported construct, contract out of date)
exit 3  engine problem (crash, a canary not refuted, obligation count shrank)
"""
from __future__ import annotations

import hashlib
import json
import os
import re
import sys
import time

VERIF = os.path.dirname(os.path.dirname(os.path.abspath(__file__)))
if VERIF not in sys.path:
    sys.path.insert(0, VERIF)

from pvc.units import run_units, ObRec  # noqa: E402


def load_known():
    p = os.path.join(VERIF, "known_findings.json")
    if not os.path.exists(p):
        return []
    with open(p) as f:
        return json.load(f)["findings"]


def jsonable(v):
    if isinstance(v, (bytes, bytearray)):
        return {"hex": bytes(v).hex()}
    if isinstance(v, dict):
        return {str(k): jsonable(x) for k, x in v.items()}
    if isinstance(v, (list, tuple)):
        return [jsonable(x) for x in v]
    if isinstance(v, (int, float, str, bool)) or v is None:
        return v
    return repr(v)


def safe_name(s):
    s = re.sub(r"[^A-Za-z0-9_.\[\]-]+", "_", s)
    if len(s) > 120:
        s = s[:100] + "_" + hashlib.sha1(s.encode()).hexdigest()[:10]
    return s


def main(argv=None):
    argv = argv or sys.argv[1:]
    if len(argv) < 1:
        print("usage: python -m pvc.check <property> [quick|thorough]")
        return 3
    prop = argv[0]
    tier = argv[1] if len(argv) > 1 else os.environ.get("VERIF_TIER", "quick")
    seed = int(os.environ.get("VERIF_SEED", "0") or 0)
    if tier == "thorough":
        os.environ["PVC_CROSSCHECK"] = "1"  # before the engine modules are imported by the workers
        os.environ.setdefault("PVC_UNIT_TIMEOUT", "5400")
    t0 = time.time()
    from pvc import props
    try:
        plan = props.plan(prop, tier, seed)
    except Exception as e:
        import traceback
        traceback.print_exc()
        print(f"ENGINE-ERROR property={prop} building the plan failed: {e}")
        return 3
    units = plan.units
    if os.environ.get("PVC_UNITS"):
        # development aid: run only the units matching a regex; never writes the real evidence file
        units = [u for u in units if re.search(os.environ["PVC_UNITS"], u.name)]
        plan.units = units
        plan.min_obligations = 0
        os.environ.setdefault("PVC_EVIDENCE_DIR", "/tmp/pvc_partial_evidence")
    results = run_units(units, tier, seed, digest=plan.digest + "|" + runtime_fingerprint())
    return finish(prop, tier, seed, plan, units, results, t0)


class _Limit:
    """wall-clock limit for native work done in the driver itself (witness re-runs, replays): code under analysis that
    no longer terminates must not hang the check.  Pure-Python loops are interrupted by SIGALRM."""

    class Expired(KeyboardInterrupt):  # passes through `except Exception` and the replayers' handlers
        pass

    def __init__(self, seconds):
        self.seconds = seconds

    def __enter__(self):
        import signal

        def _raise(sig, frm):
            raise _Limit.Expired()

        try:
            self.old = signal.signal(signal.SIGALRM, _raise)
            signal.setitimer(signal.ITIMER_REAL, self.seconds)
        except (ValueError, AttributeError):
            self.old = None
        return self

    def __exit__(self, *a):
        import signal
        try:
            signal.setitimer(signal.ITIMER_REAL, 0)
            if self.old is not None:
                signal.signal(signal.SIGALRM, self.old)
        except (ValueError, AttributeError):
            pass
        return False


def runtime_fingerprint():
    """interpreter, solver and dependency versions: part of the cache key of instance units"""
    import platform
    bits = [platform.python_version()]
    for m in ("z3", "pynmeagps", "pyrtcm"):
        try:
            mod = __import__(m)
            bits.append(f"{m}={getattr(mod, '__version__', None) or getattr(mod, 'get_version_string', lambda: '?')()}")
        except Exception:  # noqa
            bits.append(f"{m}=?")
    return ";".join(bits)


def finish(prop, tier, seed, plan, units, results, t0):
    from pvc import replay as rp
    known = [k for k in load_known() if k["property"] == prop]
    obligations, canary_res, bounded, errors, undecided = [], [], [], [], []
    functions, callees = set(), set()
    solver_s = 0.0
    by_backend = {"z3": 0, "cvc5": 0, "eval": 0}
    unit_summ = []
    crosscheck = {}
    for u, r in zip(units, results):
        for k_, v_ in (r.by_backend or {}).items():
            if k_.startswith("cvc5_"):
                crosscheck[k_] = crosscheck.get(k_, 0) + v_
        if r.error:
            errors.append((u.name, r.error))
        is_canary = getattr(u, "canary", None)
        if is_canary:
            canary_res.append((u, r))
            continue
        solver_s += r.solver_s
        sel = getattr(u, "select", None)
        for o in r.obligations:
            if sel is not None and not re.search(sel, o.name) and o.kind != "timeout":
                continue  # (a unit that was not decided in time is never filtered away)
            obligations.append(o)
            by_backend[o.backend if o.backend in by_backend else "z3"] = by_backend.get(o.backend, 0) + 1
        for x in r.unsupported:
            undecided.append(f"{u.name}: {x}")
        if r.bounded is not None:
            bounded.append((u.name, r.bounded))
        functions.update(r.functions)
        callees.update(r.callees)
        unit_summ.append({"unit": u.name, "kind": r.kind, "obligations": len(r.obligations), "paths": r.paths,
                          "wall_s": round(r.wall, 2), "outcomes": r.outcomes})
    if prop != "C13":
        # frame scan as discharge of A-GLOBAL: only the functions this property's proofs go through (under contract or
        # inlined callees) are this property's business
        cone = {f.split("[")[0] for f in functions if isinstance(f, str)}
        for c in callees:
            for x in (c if isinstance(c, tuple) else (c,)):
                if isinstance(x, str) and x.startswith("pyubx2."):
                    cone.add(x.split("[")[0])
        obligations = [o for o in obligations if not o.unit.endswith("/frame-scan")
                       or (o.inputs or {}).get("function") in cone]
    failed = [o for o in obligations if o.status == "sat"]
    unknown = [o for o in obligations if o.status not in ("sat", "unsat")]
    discharged = [o for o in obligations if o.status == "unsat"]

    lines = []
    # -- known findings
    kf_emitted = []
    violations = []
    for o in failed:
        k = match_known(known, o)
        if k is not None:
            if k["id"] not in [x["id"] for x in kf_emitted]:
                kf_emitted.append(k)
        else:
            violations.append(o)
    for name, b in bounded:
        if b.get("engine_guard") and b.get("failures"):
            # a mismatch between the engine's model of Python and CPython is an engine problem, never a verdict
            errors.append((name, "engine difftest mismatch: " + "; ".join(f.get("detail", "") for f in b["failures"][:3])))
            continue
        for f in b.get("failures", []):
            o = ObRec(f"{name}:{f.get('case', '?')}", "bounded", "sat", 0.0, f.get("detail", ""), f.get("inputs"), "native", name)
            k = match_known(known, o)
            if k is not None:
                if k["id"] not in [x["id"] for x in kf_emitted]:
                    kf_emitted.append(k)
            else:
                violations.append(o)
    # open findings whose witness is re-validated natively on every run
    for k in known:
        if k.get("status") != "open":
            continue
        try:
            with _Limit(20):
                ok, msg = rp.validate_known(k)
        except _Limit.Expired:
            ok, msg = None, "witness re-run did not finish within 20 s"
        k["_witness"] = msg
        if ok is False:
            lines.append(f"NOTE: known finding {k['id']} no longer reproduces natively ({msg}); it is not suppressing anything")
    for k in kf_emitted:
        if k.get("status") == "open":
            lines.append(f"KNOWN-FINDING: property={prop} {k['id']} {k['what']}")
        else:
            # a 'fixed' entry suppresses nothing
            for o in failed:
                if match_known([k], o) is not None and o not in violations:
                    violations.append(o)

    # -- canaries (teeth)
    killed, skipped, survived = [], [], []
    for u, r in canary_res:
        if r.info.get("skipped") or (r.error and "CANARY-ANCHOR-MISSING" in r.error):
            skipped.append(u.name)
            continue
        if r.error:
            errors.append((u.name, r.error))
            continue
        if any(o.status == "sat" for o in r.obligations):
            killed.append(u.name)
        elif r.bounded and r.bounded.get("failures"):
            killed.append(u.name)
        else:
            survived.append(u.name)

    # -- vacuity guards
    min_obl = plan.min_obligations
    vacuity = []
    if len(obligations) < max(1, min_obl):
        vacuity.append(f"only {len(obligations)} obligations generated, expected at least {min_obl}")
    for u, r in zip(units, results):
        if getattr(u, "canary", None):
            continue
        if r.kind in ("func", "lemma", "custom") and not r.obligations and not r.unsupported and not r.error:
            vacuity.append(f"unit {u.name} generated no obligation")

    # -- replay violations
    rdir = os.path.join(os.environ.get("PVC_REPLAY_DIR") or os.path.join(VERIF, "replays"), prop)
    vio_lines = []
    if violations:
        os.makedirs(rdir, exist_ok=True)
        seen = set()
        MAX_REPLAYS = 24  # further violations of the same run are counted in the evidence, not replayed one by one
        # failures that carry a concrete input (bounded / ground evaluations on the real code) first
        violations = sorted(violations, key=lambda o: 0 if o.kind in ("bounded", "ground") else 1)
        for o in violations:
            if o.name in seen:
                continue
            seen.add(o.name)
            if len(seen) > MAX_REPLAYS and any("no-failing-input-found" not in v for v in vio_lines):
                continue
            try:
                with _Limit(240):
                    info = rp.replay_obligation(prop, o, plan)
            except _Limit.Expired:
                info = {"property": prop, "obligation": o.name, "reproduced": False, "inputs": rp.jsonable(o.inputs),
                        "clause": o.detail, "solver": {"status": o.status, "backend": o.backend},
                        "note": "native replay did not finish within 240 s (the code under analysis may not terminate on this input)"}
            if getattr(o, "unconfirmed", False) and not info.get("reproduced"):
                # refuted only by the second back end (no model) and not confirmed on the real code: undecided
                if o.kind == "ground":
                    undecided.append(f"{o.name}: {o.detail[:300]} - no concrete failing history found on the real code")
                else:
                    undecided.append(f"{o.name}: cvc5 reports a counter-model but none could be replayed on the real code")
                continue
            path = os.path.join(rdir, safe_name(o.name) + ".json")
            with open(path, "w") as f:
                json.dump(info, f, indent=1, default=repr)
            tail = "" if info.get("reproduced") else " no-failing-input-found"
            vio_lines.append(f"VIOLATION property={prop} replay={path}{tail}")

    # obligations the solvers left undecided: a failing input found natively on the real code still is a violation
    # (the obligation was discharged on the unchanged tree, no longer is, and a concrete input fails)
    still_unknown = []
    seen_u = set()
    for o in unknown:
        if o.name in seen_u:
            continue
        seen_u.add(o.name)
        info = None
        if plan.replayers.get(o.unit) is not None or plan.unit_contracts.get(o.unit) is not None:
            try:
                with _Limit(240):
                    info = rp.replay_obligation(prop, o, plan)
            except (Exception, _Limit.Expired):  # noqa
                info = None
        if info and info.get("reproduced"):
            os.makedirs(rdir, exist_ok=True)
            info["note"] = (info.get("note", "") + " obligation left undecided by z3 and cvc5 (" + o.detail[-160:] +
                            "); failing input found by native search").strip()
            path = os.path.join(rdir, safe_name(o.name) + ".json")
            with open(path, "w") as f:
                json.dump(info, f, indent=1, default=repr)
            vio_lines.append(f"VIOLATION property={prop} replay={path}")
        else:
            still_unknown.append(o)
    unknown = still_unknown

    wall = time.time() - t0
    status = 0
    if vio_lines:
        status = 1
    elif errors or survived or vacuity:
        status = 3
    elif unknown or undecided:
        status = 2

    # -- evidence
    n_kf_obligations = len([o for o in failed if (lambda k: k is not None and k.get("status") == "open")(match_known(known, o))])
    trusted = sorted(set(plan.trusted_base))
    # modularity bookkeeping: a contract applied at a call site whose function body this check does not verify is an
    # assumption of this check (it is proved by the checks that list the function under functions_under_contract)
    proved_here = {f.split("[")[0] for f in functions if isinstance(f, str)}
    used_only = sorted({b.split("[")[0] for a, b, c in callees if c == "contract" and isinstance(b, str)
                        and b.split("[")[0] not in proved_here and b.startswith("pyubx2.")})
    if used_only:
        trusted.append("contracts used modularly at call sites but not proved by this check (proved in the checks that "
                       "list them under functions_under_contract): " + ", ".join(used_only))
    samples = []
    for o in (discharged[:3] + discharged[len(discharged) // 2: len(discharged) // 2 + 2] + failed[:2]):
        samples.append(o.to_json())
    ev = {
        "property_id": prop,
        "tier": tier,
        "seed": seed,
        "level": plan.level,
        "coverage": {
            # obligations = what this run had to discharge: everything generated except the obligations whose recorded
            # signature is an open known finding (those are reported as KNOWN-FINDING, re-validated natively)
            "obligations": len(obligations) - n_kf_obligations,
            "discharged": len(discharged),
            "generated_obligations": len(obligations),
            "known_finding_obligations": n_kf_obligations,
            "failed": len(failed),
            "undecided": len(unknown) + len(undecided),
            "named_obligations": len({o.name for o in obligations}),
            "checker_cmd": f"./vcheck {prop} {tier}",
            "trusted_base": trusted,
            "by_backend": by_backend,
            "cvc5_crosscheck": crosscheck,
            "unit_results_reused_from_cache": sum(1 for r in results if r.info.get("cache_hit")),
            "solver_s": round(solver_s, 2),
            "functions_under_contract": sorted(functions),
            "callees": sorted({f"{a} -> {b} ({c})" for a, b, c in callees})[:400],
            "units": unit_summ[:600],
            "instances": plan.instances,
            "exhaustive": plan.exhaustive,
            "canaries": {"killed": killed, "skipped": skipped, "survived": survived},
            "bounded": [{"unit": n, **{k: v for k, v in b.items() if k != "failures"},
                         "failures": len(b.get("failures", []))} for n, b in bounded],
            "known_findings": [{"id": k["id"], "status": k.get("status"), "what": k["what"],
                                "witness_check": k.get("_witness")} for k in kf_emitted],
            "samples": samples or [{"note": "no obligation generated"}],
            "explanation": plan.explanation,
        },
        "assumptions": plan.assumptions,
        "wall_s": round(wall, 2),
        "violations": len(vio_lines),
        "exit_status": status,
        "source_digest": plan.digest,
    }
    # PVC_EVIDENCE_DIR: used by seedtest.sh so that runs on a deliberately broken tree do not overwrite the evidence
    evdir = os.environ.get("PVC_EVIDENCE_DIR") or os.path.join(VERIF, "evidence")
    os.makedirs(evdir, exist_ok=True)
    with open(os.path.join(evdir, f"{prop}.json"), "w") as f:
        json.dump(ev, f, indent=1, default=repr)

    # -- report
    print(f"[pvc] property {prop} tier {tier}: {len(obligations)} obligations, {len(discharged)} discharged, "
          f"{len(failed)} failed ({len(kf_emitted)} known findings), {len(unknown) + len(undecided)} undecided; "
          f"canaries killed {len(killed)}/{len(killed) + len(survived)} (skipped {len(skipped)}); "
          f"{len(bounded)} bounded stand-ins; solver {solver_s:.1f}s wall {wall:.1f}s")
    for ln in lines:
        print(ln)
    for o in unknown[:20]:
        print(f"UNDECIDED obligation {o.name}: {o.detail[:200]}")
    for x in undecided[:20]:
        print(f"UNDECIDED {x[:300]}")
    for n, e in errors[:10]:
        print(f"ENGINE-ERROR in unit {n}:\n{e[-1500:]}")
    for s in survived:
        print(f"ENGINE-ERROR canary survived (no teeth): {s}")
    for v in vacuity:
        print(f"ENGINE-ERROR vacuity guard: {v}")
    for ln in vio_lines:
        print(ln)
    return status


def match_known(known, o):
    for k in known:
        pat = k.get("obligation")
        if pat is None:
            continue
        if pat == o.name or (k.get("obligation_regex") and re.fullmatch(pat, o.name)):
            return k
    return None


if __name__ == "__main__":
    sys.exit(main())
