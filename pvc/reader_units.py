"""
Reader units (modes M and R of DESIGN.md):

  step_unit      one iteration of the `while` loop of UBXReader.read (the *step*), executed from an arbitrary
                 state of the real code, is compared with the executable specification spec_step
                 (contracts/reader_spec.py) -- outcome kind, stream position, raw bytes, parsed value,
                 error reporting -- and checked directly against the per-step clauses of C07/C08.
  spec lemmas    relational properties (C09 cut streams, C10 transport style, C11 filters, C12 error policy) are
                 two evaluations of spec_step under related inputs: pure SMT lemmas over the step contract.
"""
from __future__ import annotations

import z3

from . import extract
from .contracts import Contract, Loop
from .exec import Executor, PyRaise
from .loops import StepCut
from .state import State, PathEnd
from .values import (SBytes, SInt, SBool, Ref, ExcVal, Unsupported, ContractOutOfDate, zint, zbool, mk_int, mk_bool,
                     reset_names)
from .verify import FunctionResult

R = "pyubx2.ubxreader.UBXReader."

EOF_, ITEM, SKIP, REJECT = 0, 1, 2, 3
E_STREAM, E_HEADER = 100, 101


def install_reader_models(reg):
    from .models_io import make_ext_model
    import pynmeagps
    import pyrtcm
    from .native import resolve
    reg.models["pynmeagps.nmeareader.NMEAReader.parse"] = make_ext_model("nmea", ["msgmode", "validate"],
                                                                        pynmeagps.NMEAReader.parse)
    reg.models["pyrtcm.rtcmreader.RTCMReader.parse"] = make_ext_model("rtcm", ["labelmsm", "validate"],
                                                                     pyrtcm.RTCMReader.parse)
    # UBXReader.parse inside the reader: its proved contract (raises only UBX* errors, modifies nothing) makes it a
    # function of its arguments; the reader proofs use exactly that and nothing about the message contents
    reg.models[R + "parse"] = make_ext_model("ubx", ["msgmode", "parsebitfield", "validate"], resolve(R + "parse"))


def err_code(exc: ExcVal):
    """error code as used by the specification"""
    import pyubx2.exceptions as ube
    if exc.tag is not None:
        proto, status = exc.tag
        return status + 10 * {"nmea": 1, "ubx": 2, "rtcm": 4}[proto]
    if exc.cls is ube.UBXStreamError:
        return E_STREAM
    if exc.cls is ube.UBXParseError:
        return E_HEADER
    return -1


def explore(col, reg, label, body, max_paths=20000):
    """generic path exploration: body(ex) runs one path"""
    fres = FunctionResult(label)
    work = [()]
    while work:
        script = work.pop()
        fres.paths += 1
        if fres.paths > max_paths:
            fres.unsupported.append("path budget exceeded")
            break
        reset_names()
        st = State(script, col)
        ex = Executor(st, reg)
        try:
            body(ex, fres)
        except PathEnd:
            pass
        except Unsupported as u:
            fres.unsupported.append(str(u))
        except ContractOutOfDate as u:
            fres.unsupported.append("CONTRACT-OUT-OF-DATE: " + str(u))
        work.extend(st.pending)
    col.functions[label] = fres
    for u in fres.unsupported:
        col.unsupported.append((label, u))
    return fres


def call_spec_step(ex, data, p0, filestyle, cfg):
    fi = extract.get_function("contracts.reader_spec.spec_step")
    ex._defaults_module = fi.module
    return ex.call_funcinfo(fi, [data, p0, filestyle, cfg["_protfilter"], cfg["_parsing"], cfg["_validate"],
                                 cfg["_msgmode"], cfg["_parsebf"], cfg["_labelmsm"]], {})


def step_unit(ctx, res, col, reg, style):
    """real step vs spec_step, stream style `file` or `socket`"""
    from contracts.reader import reader_object
    install_reader_models(reg)
    finfo = extract.get_function(R + "read")
    contract = Contract(R + "read", params={}, loops={1: Loop(mode="step")},
                        inline={R + "_parse_ubx", R + "_parse_nmea", R + "_parse_rtcm3", R + "_do_error"})
    label = f"{R}read/step[{style}]"
    builder = reader_object(style)

    def body(ex, fres):
        st = ex.st
        ex._defaults_module = finfo.module
        rd = builder(ex, "self")
        f = st.rec(rd)["fields"]
        S = f["_stream"]
        srec = st.rec(S)
        data = SBytes.view(srec["data"], 0, srec["n"])
        n = srec["n"]
        p0 = mk_int(srec["pos"])
        q = f["_quitonerror"]
        st.ghost["log"] = []
        st.writes = []
        try:
            r = ex.call_funcinfo(finfo, [rd], {}, verifying=True, contract=contract)
            raw, parsed = r
            if raw is None and parsed is None:
                out = ("eof",)
            else:
                out = ("item", raw, parsed)
        except StepCut:
            out = ("continue",)
        except PyRaise as pr:
            out = ("raise", pr.exc)
        key = out[0]
        fres.outcomes[key] = fres.outcomes.get(key, 0) + 1
        p1 = zint(mk_int(srec["pos"]))
        log = list(st.ghost.get("log", []))
        writes = list(st.writes)
        filestyle = srec["style"] == "file"
        P = lambda name, goal, detail="": st.prove(f"{label}:{name}", goal, kind="ensures", detail=detail,  # noqa: E731
                                                    assume_after=False)
        pz = zint(p0)
        # ---- clauses taken directly from C07 / C08 / C13, on the real step
        bad = [w for w in writes if not (w == (S.id, "pos") or w == ("ghost", "log"))]
        P("frame", not bad, f"writes outside stream position and error log: {bad}")
        if out[0] == "eof":
            if filestyle:
                P("eof-only-when-exhausted", mk_bool(p1 == n), "C07: (None, None) only when nothing is left unread")
        elif out[0] == "item":
            raw = out[1]
            if not isinstance(raw, (bytes, SBytes)):
                P("item-raw-is-bytes", False, "raw item is not bytes")
            else:
                rl = zint(ex.bm.b_len(raw))
                sl = ex.bm.subscript(data, slice(mk_int(p1 - rl), mk_int(p1)))
                P("item-is-slice-of-input", ex.bm.and_(mk_bool(z3.And(rl >= 2, p1 - rl >= pz, p1 <= n)),
                                                        ex.bm.equals(raw, sl)),
                  "C07: raw == data[s:pos'] with pos <= s")
                b0 = ex.bm.subscript(raw, 0) if not isinstance(rl, int) or rl else 0
                P("item-starts-with-preamble", mk_bool(z3.Or(zint(b0) == 0xB5, zint(b0) == 0x24, zint(b0) == 0xD3)))
        elif out[0] == "continue":
            P("progress", mk_bool(z3.And(p1 > pz, p1 <= n)), "every non-terminal step consumes at least one byte")
        else:
            exc = out[1]
            allowed = set()
            import pyubx2.exceptions as ube
            from .models_io import ext_classes
            for c in ext_classes("nmea") + ext_classes("rtcm") + [ube.UBXMessageError, ube.UBXTypeError,
                                                                    ube.UBXParseError, ube.UBXStreamError]:
                allowed.add(c)
            P("raises-only-protocol-errors", exc.cls in allowed, f"C08: {exc.cls.__name__} escapes read()")
            P("raises-only-under-ERR_RAISE", mk_bool(zint(q) == 2), "C08/C12: read() raised although quitonerror != ERR_RAISE")
        # ---- functional step contract: the real step equals spec_step
        spec = call_spec_step(ex, data, p0, filestyle, f)
        kind, newpos, sraw, sparsed, serr = spec
        P("pos", mk_bool(p1 == zint(newpos)), "stream position after the step equals the specification's")
        if kind == EOF_:
            P("kind", out[0] == "eof", f"spec: EOF, code: {out[0]}")
        elif kind == ITEM:
            P("kind", out[0] == "item", f"spec: ITEM, code: {out[0]}")
            if out[0] == "item":
                P("raw", ex.bm.equals(out[1], sraw), "raw bytes of the delivered frame")
                if sparsed is None:
                    P("parsed", out[2] is None, "parsed must be None when not parsing")
                else:
                    P("parsed", (out[2] is not None) and hasattr(out[2], "e") and mk_bool(zint(out[2]) == zint(sparsed)),
                      "parsed is what the protocol parser returns for raw under the reader's options")
        elif kind == SKIP:
            P("kind", out[0] == "continue", f"spec: SKIP, code: {out[0]}")
            P("log", len(log) == 0, "nothing is reported for noise / filtered-out frames")
        else:
            # REJECT: reported according to quitonerror
            if st.branch(mk_bool(zint(q) == 2)):
                P("kind", out[0] == "raise", f"spec: REJECT under ERR_RAISE, code: {out[0]}")
                if out[0] == "raise":
                    P("raised-is-the-rejecting-error", mk_bool(zint(serr) == err_code(out[1])))
                P("log", len(log) == 0)
            else:
                P("kind", out[0] == "continue", f"spec: REJECT (not raised), code: {out[0]}")
                if st.branch(mk_bool(zint(q) == 1)):
                    ok = len(log) == 1
                    if ok:
                        via, arg = log[0]
                        want = "handler" if f["_errorhandler"] is not None else "logger.error"
                        ok = via == want and isinstance(arg, ExcVal)
                        P("log", ok and mk_bool(zint(serr) == err_code(arg)),
                          "exactly one report, to the handler if present else logger.error, with the rejecting exception")
                    else:
                        P("log", False, f"{len(log)} reports for one rejected frame")
                else:
                    P("log", len(log) == 0, "ERR_IGNORE reports nothing")
        if kind != REJECT and kind != SKIP:
            P("log", len(log) == 0, "delivered items / EOF are never reported as errors")

    explore(col, reg, label, body)
    res.functions += [R + "read", R + "_parse_ubx", R + "_parse_nmea", R + "_parse_rtcm3", R + "_do_error"]


# =====================================================================================================
# lemmas over the step specification (relational mode R): two evaluations of spec_step, pure SMT
# =====================================================================================================
def _sym_cfg(ex, suffix=""):
    st = ex.st

    def ivar(nm, lo, hi):
        e = z3.Int(nm + suffix)
        st.assume(mk_bool(z3.And(e >= lo, e <= hi)))
        st.inputs[nm + suffix] = ("int", e)
        return SInt(e)

    pe = z3.Bool("parsing" + suffix)
    st.inputs["parsing" + suffix] = ("bool", pe)
    return {"_protfilter": ivar("protfilter", 0, 7), "_parsing": SBool(pe), "_validate": ivar("validate", 0, 1),
            "_msgmode": ivar("msgmode", 0, 3), "_parsebf": ivar("parsebf", 0, 1), "_labelmsm": ivar("labelmsm", 1, 2)}


def _sym_stream(ex, name="D"):
    from .values import Base
    st = ex.st
    base = Base(name)
    n = z3.Int(name + "_n")
    p = z3.Int(name + "_pos")
    st.assume(mk_bool(z3.And(n >= 0, p >= 0, p <= n)))
    st.inputs[name] = ("stream", base, n, p, "file")
    return base, n, p


def _same(ex, o1, o2):
    """conjunction: the two step outcomes are identical"""
    bm = ex.bm
    if o1[0] != o2[0]:
        return False
    acc = mk_bool(zint(o1[1]) == zint(o2[1]))
    for a, b in ((o1[2], o2[2]), (o1[3], o2[3]), (o1[4], o2[4])):
        if (a is None) != (b is None):
            return False
        if a is None:
            continue
        acc = bm.and_(acc, bm.equals(a, b))
    return acc


def _is_parser_reject(o):
    """REJECT whose error is a protocol parser's rejection (not a stream / header error)"""
    if o[0] != REJECT:
        return False
    e = o[4]
    if isinstance(e, int):
        return e < 100
    return mk_bool(zint(e) < 100)


def lemma_unit(ctx, res, col, reg, which):
    install_reader_models(reg)
    label = f"lemma.reader/{which}"
    fn = globals()["_lemma_" + which.split("[")[0].replace("-", "_")]
    arg = which.split("[")[1][:-1] if "[" in which else None

    def body(ex, fres):
        if arg is None:
            fn(ex, label)
        else:
            fn(ex, label, arg)
        fres.outcomes["evaluated"] = fres.outcomes.get("evaluated", 0) + 1

    explore(col, reg, label, body)


def _P(ex, label):
    return lambda name, goal, detail="": ex.st.prove(f"{label}:{name}", goal, kind="lemma", detail=detail, assume_after=False)


def _lemma_basic(ex, label, style):
    """position discipline of a single step, any stream, any configuration"""
    base, n, p = _sym_stream(ex)
    cfg = _sym_cfg(ex)
    D = SBytes.view(base, 0, n)
    fs = style == "file"
    o = call_spec_step(ex, D, mk_int(p), fs, cfg)
    P = _P(ex, label)
    kind, p1 = o[0], zint(o[1])
    P("position-within-stream", mk_bool(z3.And(p1 >= p, p1 <= n)))
    if kind in (ITEM, SKIP, REJECT):
        P("progress", mk_bool(p1 > p), "every non-terminal step consumes at least one byte => iteration terminates")
    if kind == EOF_ and fs:
        P("eof-only-when-exhausted", mk_bool(p1 == n), "C07")
    if kind == ITEM:
        raw = o[2]
        rl = zint(ex.bm.b_len(raw))
        P("item-is-slice", ex.bm.and_(mk_bool(z3.And(rl >= 2, p1 - rl >= p)),
                                      ex.bm.equals(raw, ex.bm.subscript(D, slice(mk_int(p1 - rl), mk_int(p1))))))
        b0 = zint(ex.bm.subscript(raw, 0))
        P("item-preamble", mk_bool(z3.Or(b0 == 0xB5, b0 == 0x24, b0 == 0xD3)))
        # the delivered raw bytes classify (helper `protocol`, by contract) as a protocol the filter passes
        from .verify import _eval_clause, ContractFrame
        pr = _protocol_of(ex, raw)
        P("item-protocol-passes-filter", mk_bool(ex.bm.bitand(zint(cfg["_protfilter"]), zint(pr)) != 0)
          if not isinstance(ex.bm.bitand(zint(cfg["_protfilter"]), zint(pr)), int)
          else ex.bm.bitand(zint(cfg["_protfilter"]), zint(pr)) != 0,
          "C11: raw bytes belong to a protocol in the mask (classified by ubxhelpers.protocol's contract)")
    if kind == REJECT:
        e = o[4]
        if isinstance(e, int) and e == E_STREAM:
            P("stream-error-consumes-rest", mk_bool(p1 == n), "C09: a truncated frame is dropped and the stream is exhausted")
    if p is not None:
        pass


def _protocol_of(ex, raw):
    """protocol(raw) through the contract of the real helper"""
    import importlib
    from . import extract as ext
    mod = ext.load_module("pyubx2.ubxhelpers")[0]
    return ex.bm.call_pyfunc(mod.protocol, [raw], {})


def _lemma_eof_at_end(ex, label, style):
    base, n, p = _sym_stream(ex)
    cfg = _sym_cfg(ex)
    ex.st.assume(mk_bool(p == n))
    o = call_spec_step(ex, SBytes.view(base, 0, n), mk_int(p), style == "file", cfg)
    _P(ex, label)("eof", o[0] == EOF_, "at the end of the stream the step reports end of stream")


def _lemma_cut(ex, label):
    """C09: S[:k] versus S, same start position p <= k (file style)"""
    base, n, p = _sym_stream(ex)
    cfg = _sym_cfg(ex)
    k = z3.Int("cut")
    ex.st.inputs["cut"] = ("int", k)
    ex.st.assume(mk_bool(z3.And(k >= p, k <= n)))
    o1 = call_spec_step(ex, SBytes.view(base, 0, n), mk_int(p), True, cfg)
    o2 = call_spec_step(ex, SBytes.view(base, 0, k), mk_int(p), True, cfg)
    P = _P(ex, label)
    same = _same(ex, o1, o2)
    ended = False
    if o2[0] == EOF_:
        ended = True
    elif o2[0] == REJECT and isinstance(o2[4], int) and o2[4] == E_STREAM:
        ended = mk_bool(zint(o2[1]) == k)
    P("prefix-or-end", ex.bm.or_(same, ended),
      "the cut stream's step equals the uncut stream's step, or the cut stream ends here (EOF, or truncated frame "
      "dropped with the stream exhausted)")
    if o2[0] == ITEM:
        P("no-partial-frame", same, "an item delivered from the cut stream is the same complete frame")
    # clean case: the uncut step consumed only bytes before the cut
    if o1[0] != EOF_ and not (o1[0] == REJECT and isinstance(o1[4], int) and o1[4] == E_STREAM):
        whole = mk_bool(zint(o1[1]) <= k)
        P("frames-before-cut-delivered", spec_implies(ex, whole, same),
          "a frame lying wholly before the cut is handled identically")


def spec_implies(ex, a, b):
    if a is False or b is True:
        return True
    if a is True:
        return b
    if b is False:
        return ex.not_(a)
    return mk_bool(z3.Implies(zbool(a), zbool(b)))


def _lemma_filter(ex, label):
    """C11: protfilter F versus all protocols enabled"""
    base, n, p = _sym_stream(ex)
    cfg = _sym_cfg(ex)
    cfg7 = dict(cfg)
    cfg7["_protfilter"] = 7
    D = SBytes.view(base, 0, n)
    fs = ex.st.choice(2, "style") == 0
    o7 = call_spec_step(ex, D, mk_int(p), fs, cfg7)
    oF = call_spec_step(ex, D, mk_int(p), fs, cfg)
    P = _P(ex, label)
    P("framing-unchanged", mk_bool(zint(o7[1]) == zint(oF[1])), "the mask never changes how many bytes a step consumes")
    P("eof-iff", (o7[0] == EOF_) == (oF[0] == EOF_))
    if o7[0] == ITEM:
        pr = _protocol_of(ex, o7[2])
        inF = ex.bm.bitand(zint(cfg["_protfilter"]), zint(pr))
        inF = (inF != 0) if isinstance(inF, int) else mk_bool(zint(inF) != 0)
        if oF[0] == ITEM:
            P("same-item", _same(ex, o7, oF))
            P("item-in-mask", inF)
        else:
            P("filtered-out-is-skip", oF[0] == SKIP)
            P("skip-only-if-not-in-mask", ex.not_(inF))
    else:
        P("no-new-items", oF[0] != ITEM, "the filtered reader yields nothing the unfiltered reader does not")


def _lemma_parsing(ex, label):
    """C11: parsing=False versus parsing=True"""
    base, n, p = _sym_stream(ex)
    cfg = _sym_cfg(ex)
    cp, cn = dict(cfg), dict(cfg)
    cp["_parsing"] = True
    cn["_parsing"] = False
    D = SBytes.view(base, 0, n)
    fs = ex.st.choice(2, "style") == 0
    op = call_spec_step(ex, D, mk_int(p), fs, cp)
    on = call_spec_step(ex, D, mk_int(p), fs, cn)
    P = _P(ex, label)
    P("framing-unchanged", mk_bool(zint(op[1]) == zint(on[1])))
    if on[0] == ITEM:
        P("parsed-is-none", on[3] is None)
    rej = _is_parser_reject(op)
    if rej is False:
        P("same-kind", op[0] == on[0])
        if op[0] == ITEM and on[0] == ITEM:
            P("same-raw", ex.bm.equals(op[2], on[2]))


def _lemma_style(ex, label):
    """C10: socket style versus file style on the same bytes"""
    base, n, p = _sym_stream(ex)
    cfg = _sym_cfg(ex)
    D = SBytes.view(base, 0, n)
    of = call_spec_step(ex, D, mk_int(p), True, cfg)
    os_ = call_spec_step(ex, D, mk_int(p), False, cfg)
    P = _P(ex, label)
    same = _same(ex, of, os_)
    file_ends = of[0] == EOF_ or (of[0] == REJECT and isinstance(of[4], int) and of[4] == E_STREAM)
    P("same-or-both-end", ex.bm.or_(same, (os_[0] == EOF_) and file_ends),
      "both transports give the same step until the first read that cannot be satisfied; there both stop without an item")
    if os_[0] == ITEM or of[0] == ITEM:
        P("items-identical", same)


def _lemma_segment(ex, label, kind):
    """C06: from the start of a well-formed segment the step consumes exactly that segment and types it"""
    base, n, p = _sym_stream(ex)
    cfg = _sym_cfg(ex)
    st = ex.st
    D = SBytes.view(base, 0, n)
    fs = st.choice(2, "style") == 0
    b = z3.Int("seg_end")
    st.inputs["seg_end"] = ("int", b)
    st.assume(mk_bool(z3.And(b > p, b <= n)))
    d = lambda i: base(p + i)  # noqa: E731
    bit = {"ubx": 2, "nmea": 1, "rtcm": 4}.get(kind)
    if kind == "noise":
        st.assume(mk_bool(z3.And(b == p + 1, d(0) != 0xB5, d(0) != 0x24, d(0) != 0xD3)))
    elif kind == "ubx":
        st.assume(mk_bool(z3.And(b - p >= 8, d(0) == 0xB5, d(1) == 0x62, b == p + 8 + d(4) + 256 * d(5))))
    elif kind == "nmea":
        from contracts.specs import s_is_nmea_hdr2
        st.assume(mk_bool(z3.And(b - p >= 3, d(0) == 0x24, base(b - 1) == 0x0A)))
        st.assume(s_is_nmea_hdr2(ex, SInt(d(1))))
        lo, hi = p + 2, b - 1
        st.add_forall(lambda j, lo=lo, hi=hi: z3.Implies(z3.And(j >= lo, j < hi), base(j) != 0x0A))
        st.add_trigger(b - 1)
    elif kind == "rtcm":
        st.assume(mk_bool(z3.And(b - p >= 6, d(0) == 0xD3, d(1) < 4, b == p + 3 + d(2) + 256 * d(1) + 3)))
    o = call_spec_step(ex, D, mk_int(p), fs, cfg)
    P = _P(ex, label)
    P("consumes-exactly-the-segment", mk_bool(zint(o[1]) == b))
    if kind == "noise":
        P("noise-skipped", o[0] == SKIP)
        return
    raw = SBytes.view(base, p, z3.simplify(b - p))
    from .models_io import ext_parse
    opts = {"ubx": (cfg["_msgmode"], cfg["_parsebf"], cfg["_validate"]),
            "nmea": (cfg["_msgmode"], cfg["_validate"], 0),
            "rtcm": (cfg["_labelmsm"], cfg["_validate"], 0)}[kind]
    status, val = ext_parse(ex, kind, raw, *opts)
    passes = ex.bm.bitand(zint(cfg["_protfilter"]), z3.IntVal(bit))
    passes = (passes != 0) if isinstance(passes, int) else mk_bool(zint(passes) != 0)
    parsing = cfg["_parsing"]
    if o[0] == ITEM:
        P("raw-is-the-segment", ex.bm.equals(o[2], raw))
        P("only-if-filter-passes", passes)
        if o[3] is None:
            P("unparsed-only-if-not-parsing", ex.not_(parsing))
        else:
            P("parsed-is-parser-result", ex.bm.and_(mk_bool(zint(o[3]) == zint(val)), mk_bool(status.e == 0)))
    elif o[0] == SKIP:
        P("skipped-only-if-filtered-out", ex.not_(passes))
    elif o[0] == REJECT:
        P("rejected-only-by-its-parser", ex.bm.and_(ex.bm.and_(passes, parsing), mk_bool(status.e != 0)),
          "a well-formed segment is rejected only when its protocol parser rejects it; the following frames are undisturbed (position == segment end)")
        P("reject-code-is-parser-status", mk_bool(zint(o[4]) == status.e + 10 * bit))
    else:
        P("never-eof-inside-a-complete-segment", False)
    # completeness: accepted by its parser, passing the filter => delivered
    good = ex.bm.and_(passes, ex.bm.or_(ex.not_(parsing), mk_bool(status.e == 0)))
    P("good-segment-delivered", spec_implies(ex, good, o[0] == ITEM))


def as_socket_refinement_unit(ctx, res, col, reg, method):
    """the socket-style abstract stream used in the reader proofs satisfies the (transport independent) clauses
    of the proved SocketWrapper contract: both are the same function of (data, position, request)"""
    from .models_io import StreamModel
    from .verify import ContractFrame, _eval_clause, snapshot_olds, make_input
    W = "pyubx2.socket_wrapper.SocketWrapper."
    contract = reg.contracts[W + method]
    label = f"lemma.C10/abstract-socket-stream-satisfies-SocketWrapper.{method}"
    clauses = [(lab, t) for lab, t in contract.ensures if "_buffer" not in t and "_socket" not in t]

    def body(ex, fres):
        st = ex.st
        S = StreamModel.new(ex, "socket")
        env = {"self": S}
        args = []
        if method == "read":
            env["num"] = make_input(ex, "num", "nat")
            args = [env["num"]]
        cfr = ContractFrame(None, env)
        cfr.module = extract.load_module("pyubx2.socket_wrapper")[0]
        snapshot_olds(ex, contract, cfr, clauses)
        cfr.env["result"] = StreamModel.model_method(ex, S, method, args, {})
        for lab, t in clauses:
            st.prove(f"{label}:{lab}", ex.bm.truth(_eval_clause(ex, t, cfr)), kind="lemma", detail=t, assume_after=False)
        fres.outcomes["evaluated"] = fres.outcomes.get("evaluated", 0) + 1

    explore(col, reg, label, body)


# =====================================================================================================
# lifting: from the step contract to whole iterations (inductive invariants over an abstract trace whose
# transition relation is given by the *names of the proved step clauses*; plain LIA validity checks)
# =====================================================================================================
def lifting_unit(ctx, res, col, reg, which):
    from .state import Obligation
    I = z3.Int
    B = z3.Bool
    n, p, p1, s, e, last, k = I("n"), I("p"), I("p1"), I("s"), I("e"), I("last"), I("k")
    item, eof, cont = B("item"), B("eof"), B("cont")
    one = z3.And(z3.Or(item, eof, cont), z3.Not(z3.And(item, eof)), z3.Not(z3.And(item, cont)), z3.Not(z3.And(eof, cont)))
    # clauses proved for every step (step unit / lemma.reader/basic):
    step = z3.And(one, p >= 0, p <= n, p1 >= p, p1 <= n,  # position-within-stream
                  z3.Implies(item, z3.And(s >= p, e - s >= 2, e == p1)),  # item-is-slice
                  z3.Implies(cont, p1 > p),  # progress
                  z3.Implies(eof, p1 == n))  # eof-only-when-exhausted (file style)
    goals = []
    if which == "C07":
        inv = z3.And(last <= p, p <= n)
        goals.append(("items-disjoint-increasing", z3.Implies(z3.And(inv, step, item), z3.And(last <= s, s < e, e <= n))))
        goals.append(("invariant-preserved", z3.Implies(z3.And(inv, step),
                                                         z3.And(z3.If(item, e, last) <= p1, p1 <= n))))
        goals.append(("nothing-left-when-iteration-stops", z3.Implies(z3.And(inv, step, eof), p1 == n)))
        goals.append(("terminates", z3.Implies(z3.And(inv, step, cont), z3.And(n - p1 < n - p, n - p >= 0))))
    elif which == "C09":
        # joint run on S (length n) and S[:k]: J = run 2 has ended, or both runs are at the same position <= k
        # with the same emitted items.  Step lemma lemma.reader/cut: from equal positions the two steps are
        # identical (same-step), or run 2 ends: eof2, or a truncated frame is dropped with pos2' == k (trunc2)
        p2, p21 = I("p2"), I("p21")
        same, eof2, trunc2, ended = B("same"), B("eof2"), B("trunc2"), B("ended")
        cut = z3.And(k >= 0, k <= n, z3.Or(same, eof2, trunc2),
                     z3.Implies(same, p21 == p1), p21 >= p2, p21 <= k,  # position-within-stream for run 2 (n2 = k)
                     z3.Implies(trunc2, p21 == k))
        J = z3.Or(ended, z3.And(p2 == p, p2 <= k))
        # after trunc2 the next step of run 2 starts at k == n2: lemma eof_at_end => EOF => ended
        goals.append(("joint-invariant-preserved",
                      z3.Implies(z3.And(z3.Not(ended), p2 == p, p2 <= k, cut, p1 >= p, p1 <= n),
                                 z3.Or(z3.And(same, p21 == p1, p21 <= k), eof2, z3.And(trunc2, p21 == k)))))
        goals.append(("cut-run-stays-within-cut", z3.Implies(z3.And(z3.Not(ended), p2 == p, p2 <= k, cut), p21 <= k)))
    for name, g in goals:
        sol = z3.Solver()
        sol.set("timeout", 10000)
        sol.add(z3.Not(g))
        r = sol.check()
        ob = Obligation(f"lemma.lifting/{which}:{name}", "lemma")
        ob.status = "unsat" if r == z3.unsat else ("sat" if r == z3.sat else "unknown")
        ob.detail = "inductive step of the trace invariant over the proved step clauses"
        if r == z3.sat:
            m = sol.model()
            ob.inputs = {str(d): str(m[d]) for d in m.decls()}
        col.obligations.append(ob)


def replay_step(o):
    """native confirmation of a failed reader-step obligation: the real UBXReader is run on the counter-model's stream
    (from its position, with its options) and compared with the executable step specification iterated natively"""
    import io
    import os
    info = {"reproduced": False}
    inp = o.inputs or {}
    S = inp.get("S") or inp.get("D")
    if not isinstance(S, dict) or "data" not in S:
        info["note"] = "no stream in the counter-model"
        return info
    data = bytes(S["data"])[int(S.get("pos", 0)):]
    import contracts.specs as specs
    from pyubx2 import UBXReader
    src = open(os.path.join(os.path.dirname(specs.__file__), "reader_spec.py")).read()
    ns = {"ext_parse": specs.n_ext_parse, "eol": specs.n_eol, "is_nmea_hdr2": specs.n_is_nmea_hdr2}
    exec(compile(src, "reader_spec.py", "exec"), ns)
    pf, parsing = int(inp.get("protfilter", 7)), bool(inp.get("parsing", True))
    val, mode, pbf = int(inp.get("validate", 1)), int(inp.get("msgmode", 0)), int(inp.get("parsebf", 1))
    lm = int(inp.get("labelmsm", 1))
    good = bytes.fromhex("b562012200002369")  # a well-formed (empty NAV-CLOCK-class) UBX frame
    extras = [b"", good, b"$GNGLL,5327.04319,N,00214.41396,W,223232.00,A,A*68\r\n" + good,
              bytes.fromhex("d3000047ea4b") + good, bytes.fromhex("d300013e7b3538") + good]
    variants = []
    q0 = int(inp.get("quitonerror", 1))
    for ex_ in extras:
        for q in dict.fromkeys((q0, 0, 1, 2)):
            variants.append((data + ex_, q))
            variants.append((ex_[:-len(good)] + data + good if ex_ else data, q))
    optsets = [(pf, parsing, val)] + ([(7, True, 1), (7, True, 0)] if (pf, parsing) != (7, True) else [])
    h0 = bool(inp.get("errorhandler", True))
    variants = [(d2, q, o_, h) for o_ in optsets for (d2, q) in variants for h in dict.fromkeys((h0, True, False, "falsy"))]

    class _FalsyCollector(list):
        """a callable handler object whose truth value is False while it has collected nothing"""

        def __call__(self, e):
            self.append(e)
    import logging

    class _Count(logging.Handler):
        def __init__(self):
            super().__init__()
            self.n = 0

        def emit(self, record):
            if record.levelno >= logging.ERROR:
                self.n += 1

    for d2, q, (pf, parsing, val), has_handler in variants:
        q = int(q) if int(q) in (0, 1, 2) else 0
        reports = _FalsyCollector() if has_handler == "falsy" else []
        real = []
        counter = _Count()
        lg = logging.getLogger("pyubx2.ubxreader")
        lg.addHandler(counter)
        old_prop = lg.propagate
        lg.propagate = False
        try:
            for raw, parsed in UBXReader(io.BytesIO(d2), protfilter=pf, parsing=parsing, validate=val, msgmode=mode,
                                         parsebitfield=pbf, labelmsm=lm, quitonerror=q,
                                         errorhandler=(reports if has_handler == "falsy" else
                                                       (lambda e: reports.append(e)) if has_handler else None)):
                real.append((raw, None if parsed is None else str(parsed)))
        except Exception as e:  # noqa
            real.append(("EXC", type(e).__name__))
        finally:
            lg.removeHandler(counter)
            lg.propagate = old_prop
        spec, nrep, pos, guard = [], 0, 0, 0
        while guard < 100000:
            guard += 1
            kind, pos, raw, parsed, err = ns["spec_step"](d2, pos, True, pf, parsing, val, mode, pbf, lm)
            if kind == 0:
                break
            if kind == 1:
                spec.append((raw, None if parsed is None else str(parsed)))
            if kind == 3 and q == 1:
                nrep += 1
            if kind == 3 and q == 2:
                spec.append(("EXC", None))
                break
        nreal = (len(reports) if has_handler else counter.n)
        same = len(real) == len(spec) and all(a == b or (a[0] == "EXC" and b[0] == "EXC") for a, b in zip(real, spec))
        other = counter.n if has_handler else len(reports)  # reports must go to exactly one of handler / log
        if not same or nreal != nrep or other != 0:
            info.update(reproduced=True, stream=d2.hex(), options={"protfilter": pf, "parsing": parsing, "validate": val,
                                                                   "msgmode": mode, "quitonerror": q,
                                                                   "errorhandler": has_handler},
                        observed=f"real reader: {len(real)} items / {nreal} reports (+{other} on the other channel); specification: "
                                 f"{len(spec)} items / {nrep} reports; real {real[:3]!r} spec {spec[:3]!r}"[:600])
            return info
    info["note"] = "real reader and specification agree on the counter-model's stream (socket-style or relational obligation)"
    return info
