"""
Loops with contracts: the classic cut.  At the loop head
  inv-init       the invariant holds on entry (ghost variables initialised from the contract)
then a two-way choice (two paths):
  (0) arbitrary iteration: havoc the loop-carried state, assume inv /\\ cond, run the real body once,
      prove inv-preserved and the decreases clause; the path ends there;
  (1) exit: havoc, assume inv /\\ not cond, continue after the loop.
`break` leaves the loop with the state reached inside the body (no havoc).
"""
from __future__ import annotations

import ast

import z3

from .state import PathEnd
from .values import (Sym, SInt, SBool, SBytes, SStr, SFloat, Ref, Unsupported, ContractOutOfDate, zint, zbool,
                     mk_int, mk_bool, fresh_name, Base, FSort)


def assigned_names(stmts):
    names = []

    class V(ast.NodeVisitor):
        def visit_Name(self, n):
            if isinstance(n.ctx, ast.Store) and n.id not in names:
                names.append(n.id)

        def visit_FunctionDef(self, n):
            pass

        def visit_Lambda(self, n):
            pass

    for s in stmts:
        V().visit(s)
    return names


class StepCut(Exception):
    """the loop under a step contract would start another iteration"""

    def __init__(self, env):
        self.env = env


class Loops:
    def __init__(self, ex, bm):
        self.ex = ex
        self.bm = bm

    @property
    def st(self):
        return self.ex.st

    def parse(self, text):
        return ast.parse(text, mode="eval").body

    def eval_text(self, text, fr):
        prev = getattr(fr, "spec_ok", False)
        fr.spec_ok = True
        added = []
        for k, v in fr.entry_env.items():  # old_<param>: value of a parameter at function entry
            nm = "old_" + k
            if nm not in fr.env:
                fr.env[nm] = v
                added.append(nm)
        try:
            from .exec import PyRaise
            from .values import ContractOutOfDate
            try:
                return self.ex.eval(self.parse(text), fr)
            except PyRaise as pr:
                if issubclass(pr.exc.cls, NameError):
                    # the contract text names a local the function no longer has (renamed / removed): the contract
                    # does not fit this code any more - undecided, never a verdict about the code
                    raise ContractOutOfDate(f"loop contract clause `{text}` refers to a name the function does not bind") from None
                raise
        finally:
            fr.spec_ok = prev
            for nm in added:
                fr.env.pop(nm, None)

    def havoc_like(self, v, name, declared=None):
        kind = declared
        if kind is None:
            if isinstance(v, bool) or isinstance(v, SBool):
                kind = "bool"
            elif isinstance(v, (int, SInt)):
                kind = "int"
            elif isinstance(v, (bytes, bytearray, SBytes)):
                kind = "bytearray" if (isinstance(v, bytearray) or (isinstance(v, SBytes) and v.kind == "bytearray")) else "bytes"
            elif v is None:
                kind = "none"
            else:
                raise Unsupported(f"cannot havoc loop-carried variable {name} of kind {type(v).__name__}; declare it in the loop contract")
        return self.fresh(kind, name)

    def fresh(self, kind, name):
        if kind == "int":
            return SInt(z3.Int(fresh_name(name)))
        if kind == "nat":
            e = z3.Int(fresh_name(name))
            self.st.assume(mk_bool(e >= 0))
            return SInt(e)
        if kind == "byte":
            e = z3.Int(fresh_name(name))
            self.st.assume(mk_bool(z3.And(e >= 0, e <= 255)))
            return SInt(e)
        if kind == "bool":
            return SBool(z3.Bool(fresh_name(name)))
        if kind in ("bytes", "bytearray"):
            n = z3.Int(fresh_name(name + "_len"))
            self.st.assume(mk_bool(n >= 0))
            return SBytes.view(Base(name), 0, n, kind)
        if kind == "none":
            return None
        if kind == "unbound":
            from .exec import UNBOUND
            return UNBOUND
        if kind == "float":
            return SFloat(z3.Const(fresh_name(name), FSort))
        if kind == "str":
            from .values import Opaque
            return SStr((Opaque(name),))
        raise Unsupported(f"fresh value of kind {kind}")

    def _common_head(self, s, fr, lc, ordn, extra_mod=()):
        qn = fr.finfo.qualname
        # ghost initialisation
        for g, init in lc.ghost.items():
            fr.env[g] = self.eval_text(init, fr)
        return qn

    def _check_invs(self, lc, fr, qn, ordn, phase):
        for label, inv in lc.invariants():
            v = self.eval_text(inv, fr)
            self.st.prove(f"{qn}/loop{ordn}:{phase}:{label}", self.bm.truth(v), kind=phase)

    def _check_step(self, lc, fr, qn, ordn, pre):
        from .exec import UNBOUND
        added = []
        for k, v in pre.items():
            nm = "pre_" + k
            if nm not in fr.env and v is not UNBOUND:
                fr.env[nm] = v
                added.append(nm)
        try:
            for label, text in lc.step:
                v = self.eval_text(text, fr)
                self.st.prove(f"{qn}/loop{ordn}:step:{label}", self.bm.truth(v), kind="loop-step", assume_after=False)
        finally:
            for nm in added:
                fr.env.pop(nm, None)

    def _assume_invs(self, lc, fr):
        rest = []
        for label, inv in lc.invariants():  # pass 1: `x == E` / `self.a == E` define the havoced location
            if not self._bind_inv(inv, fr):
                rest.append(inv)
        for inv in rest:
            v = self.eval_text(inv, fr)
            self.st.assume(self.bm.truth(v))

    def _bind_inv(self, text, fr):
        node = self.parse(text)
        if not (isinstance(node, ast.Compare) and len(node.ops) == 1 and isinstance(node.ops[0], ast.Eq)):
            return False
        lhs, rhs = node.left, node.comparators[0]
        if isinstance(lhs, ast.Name) and lhs.id in fr.env and not any(
                isinstance(n, ast.Name) and n.id == lhs.id for n in ast.walk(rhs)):
            fr.env[lhs.id] = self.eval_text(ast.unparse(rhs), fr)
            return True
        if isinstance(lhs, ast.Attribute):
            root = lhs
            while isinstance(root, ast.Attribute):
                root = root.value
            if isinstance(root, ast.Name) and root.id == "self":
                obj = self.eval_text(ast.unparse(lhs.value), fr)
                if isinstance(obj, Ref):
                    self.bm.set_attr(obj, lhs.attr, self.eval_text(ast.unparse(rhs), fr), direct=True)
                    return True
        return False

    def _havoc(self, s, fr, lc, extra=()):
        from .exec import UNBOUND
        mod = assigned_names(s.body) + list(lc.ghost.keys()) + list(extra)
        for name in mod:
            if name in lc.keep:
                continue
            decl = lc.kinds.get(name)
            if name not in fr.env:
                if decl is None:
                    fr.env[name] = UNBOUND
                    continue
                fr.env[name] = self.fresh(decl, name)
                continue
            cur = fr.env[name]
            if cur is UNBOUND and decl is None:
                continue
            fr.env[name] = self.havoc_like(cur, name, decl)
        # heap locations the loop modifies (attribute paths evaluated in the current frame)
        for path, kind in lc.heap.items():
            objexpr, attr = path.rsplit(".", 1)
            obj = self.eval_text(objexpr, fr)
            cur = self.bm.get_attr(obj, attr)
            self.bm.set_attr(obj, attr, self.havoc_like(cur, attr, kind), direct=True)
        for hook in lc.havoc_hooks:
            hook(self.ex, fr)

    def _measure(self, lc, fr):
        if lc.decreases is None:
            return None
        v = self.eval_text(lc.decreases, fr)
        if isinstance(v, tuple):
            return [zint(x) for x in v]
        return [zint(v)]

    def _prove_decrease(self, m0, m1, qn, ordn):
        # lexicographic, bounded below by 0 in every component
        conds = []
        for i in range(len(m0)):
            eqs = [m1[j] == m0[j] for j in range(i)]
            conds.append(z3.And(*eqs, m1[i] < m0[i], m0[i] >= 0))
        self.st.prove(f"{qn}/loop{ordn}:decreases", mk_bool(z3.Or(*conds)), kind="decreases")

    def while_step(self, s, fr, lc, ordn):
        """step mode: the state at function entry is already arbitrary, so one execution of the body from it is
        an arbitrary iteration.  A second arrival at the loop head ends the path with StepCut."""
        from .exec import _Break, _Continue
        c = self.ex.truth(self.ex.eval(s.test, fr), fr)
        if not self.st.branch(c):
            self.ex.exec_block(s.orelse, fr)
            return
        try:
            self.ex.exec_block(s.body, fr)
        except _Break:
            return
        except _Continue:
            pass
        c = self.ex.truth(self.ex.eval(s.test, fr), fr)
        if self.st.branch(c):
            raise StepCut(dict(fr.env))
        self.ex.exec_block(s.orelse, fr)

    def while_with_contract(self, s, fr, lc, ordn):
        from .exec import _Break, _Continue
        if lc.mode == "step":
            return self.while_step(s, fr, lc, ordn)
        qn = self._common_head(s, fr, lc, ordn)
        self._check_invs(lc, fr, qn, ordn, "inv-init")
        which = self.st.choice(2, f"loop{ordn}")
        self._havoc(s, fr, lc)
        self._assume_invs(lc, fr)
        c = self.ex.truth(self.ex.eval(s.test, fr), fr)
        if which == 0:
            self.st.labels.append(f"loop{ordn}:iteration")
            self.st.assume(c)
            m0 = self._measure(lc, fr)
            pre = dict(fr.env) if lc.step else None
            try:
                self.ex.exec_block(s.body, fr)
            except _Break:
                self.st.labels.append(f"loop{ordn}:break")
                return
            except _Continue:
                pass
            for g, upd in lc.ghost_update.items():
                fr.env[g] = self.eval_text(upd, fr)
            if pre is not None:
                self._check_step(lc, fr, qn, ordn, pre)
            self._check_invs(lc, fr, qn, ordn, "inv-preserved")
            if m0 is not None:
                self._prove_decrease(m0, self._measure(lc, fr), qn, ordn)
            raise PathEnd()
        self.st.labels.append(f"loop{ordn}:exit")
        self.st.assume(self.ex.not_(c))
        for label, text in lc.exit:
            v = self.eval_text(text, fr)
            self.st.prove(f"{qn}/loop{ordn}:exit:{label}", self.bm.truth(v), kind="loop-exit", assume_after=False)
        self.ex.exec_block(s.orelse, fr)

    def for_with_contract(self, s, fr, it, lc, ordn):
        """for over a symbolic-length rope or a symbolic range; ghost index variable lc.index"""
        from .exec import _Break, _Continue
        from .builtins_model import SymRange
        qn = self._common_head(s, fr, lc, ordn)
        k = lc.index
        fr.env[k] = 0
        if isinstance(it, SBytes):
            n = zint(it.length())
            item = lambda kz: mk_int(it.at(kz))
        elif isinstance(it, SymRange):
            lo, hi = zint(it.lo), zint(it.hi)
            n = z3.If(hi - lo > 0, hi - lo, z3.IntVal(0))
            item = lambda kz: mk_int(lo + kz)
        elif hasattr(it, "item") and hasattr(it, "n"):  # symbolic sequence (configdb.SymSeq)
            n = it.n
            item = lambda kz: it.item(self.ex, kz)
        else:
            raise Unsupported(f"for-contract over {type(it).__name__}")
        self._check_invs(lc, fr, qn, ordn, "inv-init")
        which = self.st.choice(2, f"loop{ordn}")
        self._havoc(s, fr, lc)
        kz = z3.Int(fresh_name(k))
        fr.env[k] = SInt(kz)
        self.st.assume(mk_bool(z3.And(kz >= 0, kz <= n)))
        self._assume_invs(lc, fr)
        if which == 0:
            self.st.labels.append(f"loop{ordn}:iteration")
            self.st.assume(mk_bool(kz < n))
            self.ex.assign(s.target, item(kz), fr)
            try:
                self.ex.exec_block(s.body, fr)
            except _Break:
                return
            except _Continue:
                pass
            fr.env[k] = mk_int(kz + 1)
            for g, upd in lc.ghost_update.items():
                fr.env[g] = self.eval_text(upd, fr)
            self._check_invs(lc, fr, qn, ordn, "inv-preserved")
            raise PathEnd()
        self.st.labels.append(f"loop{ordn}:exit")
        self.st.assume(mk_bool(kz == n))
        self.ex.exec_block(s.orelse, fr)

    def auto_for(self, s, fr, it):
        """hook for engine-provided schematic invariants (instance mode group loops)"""
        h = self.ex.reg.auto_loop_handler
        if h is None:
            return False
        return h(self.ex, s, fr, it)
