"""
Symbolic value domain of pvc.

Concrete Python objects stay concrete (ints, bytes, str, tuples, dicts that are
module tables, None, functions, classes).  Symbolic kinds:

  SInt   mathematical integer (z3 Int)            -- Python int is unbounded, so exact
  SBool  z3 Bool
  SBytes rope: tuple of segments over uninterpreted Int->Int base arrays (QF_UFLIA)
  SStr   list of pieces: concrete str | Fmt(int expr, spec) | Opaque
  SFloat opaque float (uninterpreted sort F) with a few recognisable shapes
  Ref    reference into the state's heap (objects, lists, dicts created by the code)

No SMT sequence/string theory is used (z3's returned invalid models here).
"""
from __future__ import annotations

import itertools
import z3

_ctr = itertools.count()
_apps_cache = {}


def fresh_name(prefix: str) -> str:
    return f"{prefix}!{next(_ctr)}"


def reset_names():
    global _ctr
    _ctr = itertools.count()
    _apps_cache.clear()


IntS = z3.IntSort()
FSort = z3.DeclareSort("F")  # opaque floats
i2f = z3.Function("i2f", IntS, FSort)
fmul = z3.Function("fmul", FSort, FSort, FSort)
fdiv = z3.Function("fdiv", FSort, FSort, FSort)
fadd = z3.Function("fadd", FSort, FSort, FSort)
fround = z3.Function("fround", FSort, IntS, FSort)
f2i = z3.Function("f2i", FSort, IntS)  # int(float) truncation, opaque
unpack_f = z3.Function("unpack_f", IntS, IntS, FSort)  # (size, u_le value of the bytes) -> float
_fconsts = {}


def fconst(x: float):
    key = repr(float(x))
    if key not in _fconsts:
        _fconsts[key] = z3.Const("fc_" + key, FSort)
    return _fconsts[key]


class Sym:
    """marker base class for symbolic values"""


def zint(x):
    """to z3 Int term"""
    if isinstance(x, SInt):
        return x.e
    if isinstance(x, bool):
        return z3.IntVal(1 if x else 0)
    if isinstance(x, int):
        return z3.IntVal(x)
    if isinstance(x, SBool):
        return z3.If(x.e, z3.IntVal(1), z3.IntVal(0))
    if z3.is_expr(x):
        return x
    raise TypeError(f"zint: {x!r}")


def zbool(x):
    if isinstance(x, SBool):
        return x.e
    if isinstance(x, bool):
        return z3.BoolVal(x)
    if z3.is_expr(x):
        return x
    raise TypeError(f"zbool: {x!r}")


def simp(e):
    return z3.simplify(e)


def as_const_int(e):
    """python int if the z3 term is a numeral after simplification, else None"""
    if isinstance(e, int):
        return e
    e = z3.simplify(e)
    if z3.is_int_value(e):
        return e.as_long()
    return None


class SInt(Sym):
    __slots__ = ("e", "isbool")

    def __init__(self, e, isbool=False):
        self.e = e
        self.isbool = isbool  # value is a Python bool (subclass of int) -- matters for isinstance/str only

    def __repr__(self):
        return f"SInt({self.e})"


class SBool(Sym):
    __slots__ = ("e",)

    def __init__(self, e):
        self.e = e

    def __repr__(self):
        return f"SBool({self.e})"


def mk_int(e):
    """SInt or concrete int if the term is a numeral"""
    c = as_const_int(e) if not isinstance(e, int) else e
    if c is not None:
        return c
    return SInt(z3.simplify(e))


def mk_bool(e):
    if isinstance(e, bool):
        return e
    e = z3.simplify(e)
    if z3.is_true(e):
        return True
    if z3.is_false(e):
        return False
    return SBool(e)


class SFloat(Sym):
    """opaque float; `shape` lets int(a / b) of two ints be recognised"""
    __slots__ = ("e", "shape")

    def __init__(self, e, shape=None):
        self.e = e
        self.shape = shape

    def __repr__(self):
        return f"SFloat({self.e})"


# ----------------------------------------------------------------------------------------
# bytes as ropes
# ----------------------------------------------------------------------------------------
class Seg:
    pass


class LitSeg(Seg):
    __slots__ = ("b",)

    def __init__(self, b: bytes):
        self.b = bytes(b)

    def length(self):
        return len(self.b)

    def key(self):
        return ("L", self.b)


class CellSeg(Seg):
    """concrete number of cells, each a z3 Int term in 0..255"""
    __slots__ = ("cells",)

    def __init__(self, cells):
        self.cells = tuple(cells)

    def length(self):
        return len(self.cells)

    def key(self):
        return ("C", tuple(c.get_id() for c in self.cells))


class ViewSeg(Seg):
    """view base[start : start+length]; length >= 0 is an invariant of construction"""
    __slots__ = ("base", "start", "len")

    def __init__(self, base, start, length):
        self.base = base
        self.start = start if isinstance(start, int) else _intify(start)
        self.len = length if isinstance(length, int) else _intify(length)

    def length(self):
        return self.len

    def key(self):
        return ("V", self.base.name(), _k(self.start), _k(self.len))


def _intify(e):
    c = as_const_int(e)
    return c if c is not None else z3.simplify(e)


def _k(e):
    return e if isinstance(e, int) else ("z", e.get_id())


def zadd(a, b):
    if isinstance(a, int) and isinstance(b, int):
        return a + b
    return _intify(zint(a) + zint(b))


def zsub(a, b):
    if isinstance(a, int) and isinstance(b, int):
        return a - b
    return _intify(zint(a) - zint(b))


def zmax(a, b):
    if isinstance(a, int) and isinstance(b, int):
        return max(a, b)
    a_, b_ = zint(a), zint(b)
    return _intify(z3.If(a_ >= b_, a_, b_))


def zmin(a, b):
    if isinstance(a, int) and isinstance(b, int):
        return min(a, b)
    a_, b_ = zint(a), zint(b)
    return _intify(z3.If(a_ <= b_, a_, b_))


BASE_DECLS = {}


def base_apps(e):
    """all applications base(k) of byte arrays inside a z3 term (memoised on hash-consed ids)"""
    eid = e.get_id()
    hit = _apps_cache.get(eid)
    if hit is not None and hit[0].eq(e):
        return hit[1]
    out = {}
    seen = set()
    stack = [e]
    while stack:
        t = stack.pop()
        tid = t.get_id()
        if tid in seen:
            continue
        seen.add(tid)
        if z3.is_app(t):
            if t.num_args() == 1 and t.decl().get_id() in BASE_DECLS:
                out[tid] = t
            stack.extend(t.children())
        elif z3.is_quantifier(t):
            stack.append(t.body())
    if len(_apps_cache) > 50000:
        _apps_cache.clear()
    # the cached entry keeps `e` alive, so its id cannot be reused while the entry exists
    _apps_cache[eid] = (e, list(out.values()))
    return _apps_cache[eid][1]


def range_axioms(exprs):
    seen = {}
    for e in exprs:
        for a in base_apps(e):
            seen[a.get_id()] = a
    return [z3.And(a >= 0, a <= 255) for a in seen.values()]


class Base:
    """uninterpreted byte array; `name` unique"""

    def __init__(self, prefix="b"):
        self._name = fresh_name(prefix)
        self.f = z3.Function(self._name, IntS, IntS)
        BASE_DECLS[self.f.get_id()] = self.f

    def name(self):
        return self._name

    def __call__(self, k):
        return self.f(zint(k))


class SBytes(Sym):
    """immutable rope.  `kind` is 'bytes' or 'bytearray' (Python type of the value)"""
    __slots__ = ("segs", "kind")

    def __init__(self, segs, kind="bytes"):
        self.segs = tuple(_normalise(segs))
        self.kind = kind

    # -- construction helpers
    @staticmethod
    def lit(b: bytes, kind="bytes"):
        return SBytes([LitSeg(b)] if len(b) else [], kind)

    @staticmethod
    def cells(cells, kind="bytes"):
        return SBytes([CellSeg(cells)] if len(cells) else [], kind)

    @staticmethod
    def view(base, start, length, kind="bytes"):
        return SBytes([ViewSeg(base, start, length)], kind)

    # -- observers
    def length(self):
        tot = 0
        for s in self.segs:
            tot = zadd(tot, s.length())
        return tot

    def concrete_len(self):
        n = self.length()
        return n if isinstance(n, int) else None

    def is_concrete(self):
        return all(isinstance(s, LitSeg) for s in self.segs)

    def concrete(self) -> bytes:
        return b"".join(s.b for s in self.segs)

    def at(self, k):
        """z3 term for byte k (0 <= k < len assumed by the caller)"""
        if isinstance(k, int) and self.concrete_prefix_covers(k):
            off = 0
            for s in self.segs:
                n = s.length()
                if k < off + n:
                    return _seg_at(s, k - off)
                off += n
        kz = zint(k)
        res = None
        offs = []
        off = 0
        for s in self.segs:
            offs.append(off)
            off = zadd(off, s.length())
        # build from the back
        res = z3.IntVal(0)
        for s, o in reversed(list(zip(self.segs, offs))):
            end = zadd(o, s.length())
            rel = zsub(kz if not isinstance(k, int) else k, o)
            if isinstance(rel, int) and isinstance(s, (LitSeg, CellSeg)) and not 0 <= rel < s.length():
                continue  # concrete index outside this concrete-length segment: the guard below would be false
            if isinstance(s, DefView) and isinstance(rel, int) and isinstance(s.rel, int) \
                    and not 0 <= s.rel + rel < s.under.length():
                continue
            res = z3.If(kz < zint(end), _seg_at(s, rel), res)
        return z3.simplify(res)

    def concrete_prefix_covers(self, k: int):
        off = 0
        for s in self.segs:
            n = s.length()
            if not isinstance(n, int):
                return False
            off += n
            if k < off:
                return True
        return False

    def concat(self, other: "SBytes"):
        return SBytes(self.segs + other.segs, self.kind)

    def slice(self, lo, hi):
        """[lo:hi] with 0 <= lo <= hi <= len already normalised (ints or z3 terms)"""
        if len(self.segs) == 1:
            ln = zsub(hi, lo)
            if isinstance(ln, int) and ln == 0:
                return SBytes([], self.kind)
            return SBytes([_subseg(self.segs[0], lo, ln)], self.kind)
        out = []
        off = 0
        for s in self.segs:
            n = s.length()
            end = zadd(off, n)
            st = zmax(lo, off)
            en = zmin(hi, end)
            ln = zsub(en, st)
            if isinstance(ln, int):
                if ln > 0:
                    out.append(_subseg(s, zsub(st, off), ln))
            else:
                lnc = _intify(z3.If(ln > 0, ln, z3.IntVal(0)))
                rel = zsub(st, off)
                if not isinstance(rel, int):
                    rel = _intify(z3.If(rel > 0, rel, z3.IntVal(0)))
                elif rel < 0:
                    rel = 0
                out.append(_subseg(s, rel, lnc))
            off = end
        return SBytes(out, self.kind)

    def key(self):
        return tuple(s.key() for s in self.segs)

    def __repr__(self):
        parts = []
        for s in self.segs:
            if isinstance(s, LitSeg):
                parts.append(s.b.hex() or "''")
            elif isinstance(s, CellSeg):
                parts.append("cells[%d]" % len(s.cells))
            else:
                parts.append(f"{s.base.name()}[{s.start}:+{s.len}]")
        return "SBytes(" + " + ".join(parts) + ")"


class DefView(Seg):
    """symbolic window [rel : rel+len] over a concrete-length Lit/Cell segment"""
    __slots__ = ("under", "rel", "len")

    def __init__(self, under, rel, ln):
        if isinstance(under, DefView):
            rel = zadd(under.rel, rel)
            under = under.under
        self.under = under
        self.rel = rel
        self.len = ln

    def length(self):
        return self.len

    def key(self):
        return ("D", self.under.key(), _k(self.rel), _k(self.len))


def _seg_at(s, k):
    """z3 term for cell k of segment s (0 <= k < len(s) assumed)"""
    if isinstance(s, DefView):
        return _seg_at(s.under, zadd(s.rel, k))
    if isinstance(s, LitSeg):
        if isinstance(k, int):
            return z3.IntVal(s.b[k])
        res = z3.IntVal(s.b[-1])
        for i in range(len(s.b) - 2, -1, -1):
            res = z3.If(zint(k) == i, z3.IntVal(s.b[i]), res)
        return res
    if isinstance(s, CellSeg):
        if isinstance(k, int):
            return s.cells[k]
        res = s.cells[-1]
        for i in range(len(s.cells) - 2, -1, -1):
            res = z3.If(zint(k) == i, s.cells[i], res)
        return res
    return s.base(zadd(s.start, k))


def _subseg(s, rel, ln):
    """sub-segment [rel : rel+ln] of s; ln >= 0, rel >= 0 (the caller clamps symbolic ones)"""
    if isinstance(s, ViewSeg):
        return ViewSeg(s.base, zadd(s.start, rel), ln)
    if isinstance(s, DefView):
        return DefView(s.under, zadd(s.rel, rel), ln)
    if isinstance(rel, int) and isinstance(ln, int):
        if isinstance(s, LitSeg):
            return LitSeg(s.b[rel:rel + ln])
        return CellSeg(s.cells[rel:rel + ln])
    return DefView(s, rel, ln)


def _normalise(segs):
    out = []
    for s in segs:
        n = s.length()
        if isinstance(n, int) and n == 0:
            continue
        if out:
            p = out[-1]
            if isinstance(p, LitSeg) and isinstance(s, LitSeg):
                out[-1] = LitSeg(p.b + s.b)
                continue
            if isinstance(p, CellSeg) and isinstance(s, CellSeg):
                out[-1] = CellSeg(p.cells + s.cells)
                continue
            if isinstance(p, ViewSeg) and isinstance(s, ViewSeg) and p.base is s.base:
                pe = zadd(p.start, p.len)
                same = (pe == s.start) if isinstance(pe, int) and isinstance(s.start, int) else (
                    not isinstance(pe, int) and not isinstance(s.start, int) and pe.eq(s.start))
                if not same and not (isinstance(pe, int) and isinstance(s.start, int)):
                    d = as_const_int(zint(pe) - zint(s.start))
                    same = d == 0
                if same:
                    out[-1] = ViewSeg(p.base, p.start, zadd(p.len, s.len))
                    continue
        out.append(s)
    return out


def to_rope(v, kind=None):
    if isinstance(v, SBytes):
        return v
    if isinstance(v, (bytes, bytearray)):
        return SBytes.lit(bytes(v), kind or ("bytearray" if isinstance(v, bytearray) else "bytes"))
    raise TypeError(f"to_rope: {v!r}")


def is_byteslike(v):
    return isinstance(v, (bytes, bytearray, SBytes))


# ----------------------------------------------------------------------------------------
# strings
# ----------------------------------------------------------------------------------------
class Fmt:
    """format(int, spec) piece, e.g. f"{i:02d}" """
    __slots__ = ("e", "spec")

    def __init__(self, e, spec):
        self.e = e
        self.spec = spec

    def __repr__(self):
        return f"Fmt({self.e},{self.spec})"


class Opaque:
    """unknown text (error messages, str() of symbolic values)"""
    __slots__ = ("tag",)

    def __init__(self, tag=""):
        self.tag = tag

    def __repr__(self):
        return f"Opaque({self.tag})"


class TextOf:
    """piece of SStr: the text obtained by decoding `rope` with (codec, errors) - decoding is a function of the bytes"""
    __slots__ = ("rope", "codec", "errors")

    def __init__(self, rope, codec, errors):
        self.rope, self.codec, self.errors = rope, codec, errors

    def __repr__(self):
        return f"TextOf({self.codec},{self.errors})"


def norm_codec(enc):
    e = str(enc).lower().replace("_", "-")
    return {"utf8": "utf-8", "latin1": "latin-1", "iso-8859-1": "latin-1", "iso8859-1": "latin-1", "l1": "latin-1",
            "us-ascii": "ascii"}.get(e, e)


class SStr(Sym):
    __slots__ = ("pieces",)

    def __init__(self, pieces):
        out = []
        for p in pieces:
            if isinstance(p, str):
                if not p:
                    continue
                if out and isinstance(out[-1], str):
                    out[-1] += p
                    continue
            out.append(p)
        self.pieces = tuple(out)

    def is_concrete(self):
        return all(isinstance(p, str) for p in self.pieces)

    def concrete(self):
        return "".join(self.pieces)

    def __repr__(self):
        return f"SStr{self.pieces}"


def mk_str(pieces):
    s = SStr(pieces)
    if s.is_concrete():
        return s.concrete()
    return s


# ----------------------------------------------------------------------------------------
# heap references
# ----------------------------------------------------------------------------------------
class Ref:
    """reference to a heap record of the State (object / list / dict / stream model)"""
    __slots__ = ("id", "kind", "cls")

    def __init__(self, id_, kind, cls=None):
        self.id = id_
        self.kind = kind  # 'obj' | 'list' | 'dict'
        self.cls = cls  # for 'obj': the real Python class or a model class

    def __repr__(self):
        return f"Ref({self.kind}#{self.id}{':' + self.cls.__name__ if self.cls else ''})"


class ExcVal:
    """an exception instance: concrete class, opaque message, optional payload"""
    __slots__ = ("cls", "args", "tag")

    def __init__(self, cls, args=(), tag=None):
        self.cls = cls
        self.args = args
        self.tag = tag  # identity token (z3 Int) for 'the same exception' reasoning

    def __repr__(self):
        return f"ExcVal({self.cls.__name__})"


class Unsupported(Exception):
    """the engine cannot execute this construct -> UNDECIDED, never a violation"""


class ContractOutOfDate(Exception):
    """a sidecar binding no longer resolves -> UNDECIDED"""
