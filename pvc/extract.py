"""
Extraction of the code under verification: re-reads the *working tree* source of the real
modules on every run (nothing is cached across source changes) and hands FunctionDef nodes
to the executor.  What extraction drops: docstrings, comments/pragmas, type annotations,
decorators other than @staticmethod/@property (recorded in FuncInfo.decorators).
"""
from __future__ import annotations

import ast
import hashlib
import importlib
import inspect
import os
import sys

REPO_SRC = os.environ.get("PVC_REPO_SRC", "/repo/src")
if REPO_SRC not in sys.path:
    sys.path.insert(0, REPO_SRC)  # the working tree under analysis shadows any installed copy, for every import

_mod_cache = {}
_overrides = {}  # module name -> source text (canaries: in-memory patches of the real source)


def set_override(modname, text):
    _overrides[modname] = text
    _mod_cache.pop(modname, None)
    _func_cache.clear()


def clear_overrides():
    for m in list(_overrides):
        _mod_cache.pop(m, None)
    _overrides.clear()
    _func_cache.clear()


def module_source(modname):
    """current working-tree source text of a module (ignoring overrides)"""
    mod = importlib.import_module(modname)
    with open(inspect.getsourcefile(mod), "r", encoding="utf-8") as f:
        return f.read()


class FuncInfo:
    def __init__(self, qualname, node, module, cls, decorators, filename):
        self.qualname = qualname  # e.g. pyubx2.ubxreader.UBXReader.parse
        self.node = node
        self.module = module  # real module object (for globals)
        self.cls = cls  # real class object or None
        self.decorators = decorators
        self.filename = filename
        self.loops = _number_loops(node)

    @property
    def is_static(self):
        return "staticmethod" in self.decorators

    @property
    def is_property(self):
        return "property" in self.decorators


def _number_loops(fn):
    """loop ordinal (1-based, source order) -> node; contracts bind to loops by ordinal"""
    loops = {}

    class V(ast.NodeVisitor):
        def __init__(self):
            self.n = 0

        def visit_For(self, node):
            self.n += 1
            loops[id(node)] = self.n
            self.generic_visit(node)

        def visit_While(self, node):
            self.n += 1
            loops[id(node)] = self.n
            self.generic_visit(node)

        def visit_FunctionDef(self, node):
            if node is fn:
                self.generic_visit(node)

    V().visit(fn)
    return loops


def load_module(modname):
    """import the real module from the working tree and parse its source"""
    if modname in _mod_cache:
        return _mod_cache[modname]
    if REPO_SRC not in sys.path:
        sys.path.insert(0, REPO_SRC)
    mod = importlib.import_module(modname)
    fn = inspect.getsourcefile(mod)
    if modname.startswith("pyubx2") and not os.path.realpath(fn).startswith(os.path.realpath(REPO_SRC)):
        raise RuntimeError(f"{modname} is imported from {fn}, not from the working tree {REPO_SRC}")
    if modname in _overrides:
        src = _overrides[modname]
    else:
        with open(fn, "r", encoding="utf-8") as f:
            src = f.read()
    tree = ast.parse(src, filename=fn)
    _mod_cache[modname] = (mod, tree, fn, src)
    return _mod_cache[modname]


_func_cache = {}


def get_function(qualname) -> FuncInfo:
    """qualname = module path + optional class + function, e.g. pyubx2.ubxhelpers.calc_checksum"""
    if qualname in _func_cache:
        return _func_cache[qualname]
    parts = qualname.split(".")
    # find the longest importable module prefix
    for cut in range(len(parts) - 1, 0, -1):
        modname = ".".join(parts[:cut])
        try:
            mod, tree, fn, _ = load_module(modname)
        except ImportError:
            continue
        rest = parts[cut:]
        break
    else:
        raise KeyError(qualname)
    body = tree.body
    cls = None
    node = None
    for i, nm in enumerate(rest):
        found = None
        for n in body:
            if isinstance(n, (ast.FunctionDef, ast.ClassDef)) and n.name == nm:
                found = n
        if found is None:
            raise KeyError(f"{qualname}: {nm} not found in {fn}")
        if isinstance(found, ast.ClassDef):
            cls = getattr(cls or mod, nm)
            body = found.body
        else:
            node = found
    if node is None:
        raise KeyError(qualname)
    decos = []
    for d in node.decorator_list:
        if isinstance(d, ast.Name):
            decos.append(d.id)
        elif isinstance(d, ast.Attribute):
            decos.append(d.attr)
        else:
            decos.append(ast.dump(d))
    fi = FuncInfo(qualname, node, mod, cls, decos, fn)
    _func_cache[qualname] = fi
    return fi


def qualname_of(fobj):
    """qualified name of a real function object defined in a module under analysis"""
    mod = getattr(fobj, "__module__", None)
    qn = getattr(fobj, "__qualname__", None)
    if mod is None or qn is None:
        return None
    return f"{mod}.{qn}"


def source_digest(extra_dirs=()):
    """sha256 over every file of the package in the working tree (+ the verifier itself)"""
    h = hashlib.sha256()
    roots = [os.path.join(REPO_SRC, "pyubx2")] + list(extra_dirs)
    for root in roots:
        for dp, dn, fns in sorted(os.walk(root)):
            dn[:] = sorted(d for d in dn if d != "__pycache__")
            for f in sorted(fns):
                if f.endswith(".py") or f.endswith(".json"):
                    p = os.path.join(dp, f)
                    h.update(p.encode())
                    with open(p, "rb") as fh:
                        h.update(fh.read())
    return h.hexdigest()
