"""
Run-time sampling of the contracts on the real code (bounded stand-in; guards the *engine*, not pyubx2).

Every contract of a function with plain parameters (bytes / ints / bools / constants; family members included) is
evaluated natively - real function, CPython, real tables of the working tree - on seeded inputs that satisfy its
precondition: every `ensures`, `raises`, `raises_iff` clause, exactly as the replayer evaluates them for a counter-model.
A clause that was *proved* by the symbolic executor and is *false* on a concrete input means that the engine's model of
Python, or a spec function's native twin, is wrong.  It is reported as a failure of this stand-in (which makes the
check fail with the concrete input as the witness): the check cannot tell an engine fault from a defect the proof missed,
and either way the claim "held on everything explored" would be false.

Inputs are biased toward frame-like byte strings and boundary integers; sample counts: 300 per contract in the quick
tier, 20000 in the thorough tier.
"""
from __future__ import annotations

import random

from . import extract


def _gen(kind, rnd):
    if kind in ("bytes", "bytearray"):
        r = rnd.random()
        n = rnd.choice([0, 1, 2, 3, 4, 5, 6, 7, 8, 9, 10, 12, 16, 24]) if r < 0.75 else rnd.randrange(0, 300)
        b = bytearray(rnd.randrange(256) for _ in range(n))
        if n >= 2 and rnd.random() < 0.7:
            b[0:2] = rnd.choice([b"\xb5\x62", b"\x24\x47", b"\x24\x50", b"\xd3\x00", b"\xd3\x03", b"\xb5\x00"])
        if n >= 4 and rnd.random() < 0.6:
            b[2:4] = rnd.choice([b"\x06\x8b", b"\x06\x8a", b"\x06\x01", b"\x06\x02", b"\x06\x03", b"\x06\x31", b"\x01\x07",
                                 b"\x13\x00", b"\x0b\x30", b"\x0b\x31", b"\x05\x01", b"\x27\x0a", b"\x10\x02"])
        if n >= 6 and rnd.random() < 0.6:
            b[4:6] = (n - 8 if n >= 8 else 0).to_bytes(2, "little")
        if n >= 8 and rnd.random() < 0.5:
            # make the checksum right
            ca = cb = 0
            for x in b[2:n - 2]:
                ca = (ca + x) & 0xFF
                cb = (cb + ca) & 0xFF
            b[n - 2:n] = bytes([ca, cb])
        return bytes(b) if kind == "bytes" else bytearray(b)
    if isinstance(kind, tuple) and kind[0] == "bytesn":
        return bytes(rnd.randrange(256) for _ in range(kind[1]))
    if isinstance(kind, tuple) and kind[0] == "bytelist":
        return [rnd.randrange(256) for _ in range(kind[1])]
    if isinstance(kind, tuple) and kind[0] == "const":
        return kind[1]
    if kind == "int":
        return rnd.choice([0, 1, 2, 3, 7, 8, 9, 10, 11, -1, 127, 128, 255, 256, 32767, 32768, 65535, 65536, -128, -129,
                           (1 << 31) - 1, 1 << 31, (1 << 32) - 1, 1 << 32, -(1 << 31), (1 << 63) - 1, 1 << 63, -(1 << 63),
                           (1 << 64) - 1, 1 << 64, rnd.randrange(-(1 << 70), 1 << 70), rnd.randrange(0, 70000),
                           rnd.randrange(-70000, 0)])
    if kind in ("nat", "byte", "u16", "boolint"):
        m = {"nat": 1 << 16, "byte": 256, "u16": 65536, "boolint": 2}[kind]
        return rnd.choice([0, 1, m - 1, rnd.randrange(m)])
    if kind == "bool":
        return rnd.random() < 0.5
    if kind == "float":
        # no NaN: the contracts compare floats with ==, which the engine reads as identity of the (uninterpreted) value
        return rnd.choice([0.0, -0.0, 1.0, -1.5, 1e-7, 3.4e38, 3.5e38, -3.5e38, 1e300, float("inf"),
                           rnd.uniform(-1e6, 1e6)])
    return NotImplemented


def _jobs(reg, qualnames):
    out = []
    for qn in qualnames:
        if qn in reg.contracts:
            out.append((qn, reg.contracts[qn]))
        if qn in reg.families:
            for member, c in reg.families[qn][1].items():
                if c is not None:
                    out.append((f"{qn}[{member}]", c))
    return out


def sample_contracts(ctx, tier, seed, qualnames):
    from .native import resolve, check_contract_natively
    reg = ctx.registry()
    rnd = random.Random(seed + 31337)
    n = 300 if tier == "quick" else 20000
    fails, cases, skipped, covered = [], 0, [], []
    for label, c in _jobs(reg, qualnames):
        try:
            finfo = extract.get_function(c.qualname)
            fobj = resolve(c.qualname)
        except Exception as e:  # noqa
            skipped.append(f"{label}: {type(e).__name__}")
            continue
        a = finfo.node.args
        names = [x.arg for x in a.posonlyargs + a.args] + [x.arg for x in a.kwonlyargs]
        if a.vararg or a.kwarg or finfo.is_property or any(nm not in c.params for nm in names):
            skipped.append(f"{label}: signature not samplable")
            continue
        texts = [t for _, t in c.ensures] + [t for _, t in c.ensures_exc] + [t for t in c.raises.values() if t] + \
                list(c.raises_iff.values()) + [t for _, t in c.requires]
        witness = getattr(c, "native_witness", None) or {}
        if any("final_" in t for t in texts) and not witness:
            skipped.append(f"{label}: existential witness clauses (final_<local>) are not evaluable at run time")
            continue
        kinds = [c.params[nm] for nm in names]
        if any(_gen(k, random.Random(0)) is NotImplemented for k in kinds):
            skipped.append(f"{label}: parameter kind {[k for k in kinds if _gen(k, random.Random(0)) is NotImplemented][0]!r}")
            continue
        covered.append(label)
        per = n if "[" not in label else max(40, n // 8)
        bad = 0
        for _ in range(per):
            vals = {nm: _gen(k, rnd) for nm, k in zip(names, kinds)}
            args = [vals[nm] for nm in names]
            env_vals = dict(vals)
            if witness:
                from .native import native_env, eval_clause
                try:
                    nenv = native_env(reg, finfo.module, vals)
                    if not all(eval_clause(t, nenv, {}) for _, t in c.requires):
                        continue  # the witness is only defined under the precondition
                    for wn, wexpr in witness.items():
                        env_vals[wn] = eval(wexpr, nenv)
                except Exception:  # noqa
                    continue
            try:
                vio, observed = check_contract_natively(reg, c, lambda: fobj(*args), env_vals, finfo.module)
            except Exception as e:  # noqa  (a clause that cannot be evaluated natively is a defect of the sidecar)
                vio, observed = [f"clause evaluation crashed: {type(e).__name__}: {e}"], "?"
            if vio is None:
                continue  # precondition false
            cases += 1
            if vio:
                bad += 1
                fails.append({"case": f"{label}:{vio[0][:80]}", "detail": f"{observed}; violated {vio[:3]}"[:300],
                              "inputs": {k: (v.hex() if isinstance(v, (bytes, bytearray)) else repr(v)[:80]) for k, v in vals.items()}})
                if bad >= 3:
                    break
    return {"what": "proved contracts evaluated at run time on the real functions (CPython, real tables) for seeded inputs "
                    "satisfying the precondition: every ensures / raises / raises_iff clause",
            "bound": f"{len(covered)} contracts x up to {n} inputs ({', '.join(covered[:12])}{' ...' if len(covered) > 12 else ''}); "
                     f"not samplable: {skipped[:8]}",
            "cases": cases, "failures": fails[:20], "exhaustive": False}
