"""
Ghost models of the reader's environment (DESIGN.md 4.3):

  StreamModel   abstract stream AS: immutable contents `data[0:n]`, cursor `pos`; file style (short read returns
                the rest) or socket style (read(k) returns exactly k bytes or b"" without consuming)
  SocketModel   ghost TCP socket for SocketWrapper: recv(bufsize) hands out the next 1..bufsize bytes of `total`
                in order; it fails (b"", OSError, TimeoutError) only when everything has been delivered
  ExtParser     pynmeagps / pyrtcm parse as uninterpreted functions of (bytes, options)
  Logger / Handler  ghost log of error reports
"""
from __future__ import annotations

import z3

from .values import (SBytes, SInt, SBool, SStr, Ref, ExcVal, Unsupported, Base, zint, zbool, mk_int, mk_bool,
                     fresh_name, IntS)
from .state import PathEnd


class StreamModel:
    __name__ = "StreamModel"

    @staticmethod
    def new(ex, style="file", name="S"):
        st = ex.st
        data = Base(name + "_data")
        n = z3.Int(name + "_n")
        pos = z3.Int(name + "_pos0")
        st.assume(mk_bool(z3.And(n >= 0, pos >= 0, pos <= n)))
        st.inputs[name] = ("stream", data, n, pos, style)
        return st.alloc("obj", StreamModel, data=data, n=n, pos=pos, style=style, fields={})

    @staticmethod
    def model_getattr(ex, ref, name):
        rec = ex.st.rec(ref)
        if name == "pos":
            return mk_int(rec["pos"])
        if name == "n":
            return mk_int(rec["n"])
        if name == "data":
            return SBytes.view(rec["data"], 0, rec["n"])
        if name == "rest":
            return SBytes.view(rec["data"], rec["pos"], z3.simplify(rec["n"] - rec["pos"]))
        if name == "filestyle":
            return rec["style"] == "file"
        if name in ("read", "readline"):
            from .builtins_model import BoundMethod
            return BoundMethod(ref, None, name)
        ex.bm.raise_(AttributeError, name)

    @staticmethod
    def model_setattr(ex, ref, name, v):
        rec = ex.st.rec(ref)
        if name == "pos":  # only contracts (havoc / binding) write the ghost cursor
            rec["pos"] = zint(v)
            ex.st.record_write((ref.id, "pos"))
            return
        raise Unsupported(f"store to stream.{name}")

    @staticmethod
    def model_method(ex, ref, name, args, kwargs):
        st = ex.st
        rec = st.rec(ref)
        data, n, pos = rec["data"], rec["n"], rec["pos"]
        if name == "read":
            k = args[0] if args else -1
            kz = zint(k)
            if not st.must(kz >= 0):
                raise Unsupported("stream.read with possibly negative size")
            avail = n - pos
            if st.branch(mk_bool(kz <= avail)):
                rec["pos"] = z3.simplify(pos + kz)
                st.record_write((ref.id, "pos"))
                kk = k if isinstance(k, int) else z3.simplify(kz)
                return SBytes.view(data, pos, kk)
            if rec["style"] == "file":
                rec["pos"] = n
                st.record_write((ref.id, "pos"))
                return SBytes.view(data, pos, z3.simplify(avail))
            return b""
        if name == "readline":
            # data[pos:e], e = one past the first LF at or after pos, or n if there is none
            e = zint(eol(ex, SBytes.view(data, 0, n), mk_int(pos)))
            rec["pos"] = e
            st.record_write((ref.id, "pos"))
            return SBytes.view(data, pos, z3.simplify(e - pos))
        raise Unsupported(f"stream.{name}")


import socket as _socket


class SocketModel(_socket.socket):
    """ghost socket: total[0:n] is what the peer sends; d bytes have been delivered so far.
    (Subclass of socket.socket only so that isinstance(x, socket) in the code under analysis is true; never
    instantiated natively.)"""
    __name__ = "SocketModel"

    @staticmethod
    def new(ex, name="sock"):
        st = ex.st
        total = Base(name + "_total")
        n = z3.Int(name + "_n")
        d = z3.Int(name + "_d0")
        st.assume(mk_bool(z3.And(n >= 0, d >= 0, d <= n)))
        st.inputs[name] = ("socket", total, n, d)
        return st.alloc("obj", SocketModel, total=total, n=n, d=d, fields={})

    @staticmethod
    def model_getattr(ex, ref, name):
        rec = ex.st.rec(ref)
        if name == "d":
            return mk_int(rec["d"])
        if name == "n":
            return mk_int(rec["n"])
        if name == "total":
            return SBytes.view(rec["total"], 0, rec["n"])
        if name in ("recv", "send"):
            from .builtins_model import BoundMethod
            return BoundMethod(ref, None, name)
        ex.bm.raise_(AttributeError, name)

    @staticmethod
    def model_setattr(ex, ref, name, v):
        rec = ex.st.rec(ref)
        if name == "d":
            rec["d"] = zint(v)
            ex.st.record_write((ref.id, "d"))
            return
        raise Unsupported(f"store to socket.{name}")

    @staticmethod
    def model_method(ex, ref, name, args, kwargs):
        st = ex.st
        rec = st.rec(ref)
        if name == "recv":
            bufsize = zint(args[0])
            if st.branch(mk_bool(bufsize < 0)):
                ex.bm.raise_(ValueError, "negative buffersize in recv")
            if st.branch(mk_bool(bufsize == 0)):
                return b""  # recv(0) returns no data, whatever is pending
            total, n, d = rec["total"], rec["n"], rec["d"]
            if st.branch(mk_bool(d < n)):
                m = z3.Int(fresh_name("chunk"))
                st.assume(mk_bool(z3.And(m >= 1, m <= bufsize, m <= n - d)))
                rec["d"] = z3.simplify(d + m)
                st.record_write((ref.id, "d"))
                return SBytes.view(total, d, m)
            # everything delivered: the peer closes (b""), the receive times out, or the socket errors
            w = st.choice(3, "recv-end")
            if w == 0:
                return b""
            if w == 1:
                ex.bm.raise_(TimeoutError, "timed out")
            ex.bm.raise_(OSError, "socket closed")
        raise Unsupported(f"socket.{name}")


class ParsedVal:
    """opaque result object of an external protocol parser, identified by an Int term"""
    __slots__ = ("proto", "id")

    def __init__(self, proto, id_):
        self.proto = proto
        self.id = id_

    def __repr__(self):
        return f"ParsedVal({self.proto},{self.id})"


class LoggerModel:
    __name__ = "LoggerModel"

    @staticmethod
    def new(ex):
        return ex.st.alloc("obj", LoggerModel, fields={})

    @staticmethod
    def model_getattr(ex, ref, name):
        from .builtins_model import BoundMethod
        return BoundMethod(ref, None, name)

    @staticmethod
    def model_method(ex, ref, name, args, kwargs):
        if name in ("error", "warning", "info", "debug", "critical", "exception"):
            log = ex.st.ghost.setdefault("log", [])
            log.append(("logger." + name, args[0] if args else None))
            ex.st.record_write(("ghost", "log"))
            return None
        raise Unsupported(f"logger.{name}")


class HandlerModel:
    """a user supplied error handler (callable); nothing is known about its truth value (a callable object may
    define __bool__ / __len__)"""
    __name__ = "HandlerModel"
    truth_unknown = True

    @staticmethod
    def new(ex):
        return ex.st.alloc("obj", HandlerModel, fields={})

    @staticmethod
    def model_call(ex, ref, args, kwargs):
        log = ex.st.ghost.setdefault("log", [])
        log.append(("handler", args[0] if args else None))
        ex.st.record_write(("ghost", "log"))
        return None

    @staticmethod
    def model_getattr(ex, ref, name):
        ex.bm.raise_(AttributeError, name)


# ---------------------------------------------------------------------------------------------------
# external protocol parsers as uninterpreted functions of (bytes, options)
# ---------------------------------------------------------------------------------------------------
def ext_classes(proto):
    if proto == "nmea":
        import pynmeagps.exceptions as nme
        return [nme.NMEAMessageError, nme.NMEAParseError, nme.NMEAStreamError, nme.NMEATypeError]
    if proto == "rtcm":
        import pyrtcm.exceptions as rte
        return [rte.RTCMMessageError, rte.RTCMParseError, rte.RTCMStreamError, rte.RTCMTypeError]
    if proto == "ubx":
        import pyubx2.exceptions as ube
        return [ube.UBXParseError, ube.UBXMessageError, ube.UBXTypeError]
    raise KeyError(proto)


class ParsedSym(SInt):
    """symbolic handle of the object a protocol parser returned (compared by id term)"""
    __slots__ = ("proto",)

    def __init__(self, e, proto):
        super().__init__(e)
        self.proto = proto


def ext_parse(ex, proto, raw, *opts):
    """(status, value): status 0 = the parser returns `value`; status i>0 = it raises its i-th exception class.
    Deterministic in (raw bytes, options): uninterpreted functions with congruence (assumed T-NMEA / T-RTCM;
    for UBX this is the proved contract of UBXReader.parse: raises only UBX* errors, modifies nothing)."""
    from .values import to_rope
    st = ex.st
    rope = to_rope(raw)
    k = len(ext_classes(proto))
    zopts = tuple(zint(o) if not isinstance(o, bool) else z3.IntVal(int(o)) for o in opts)
    status, vid = st.uf_apply("parse_" + proto, rope, zopts, (IntS, IntS))
    st.assume(mk_bool(z3.And(status >= 0, status <= k)))
    return (SInt(status), ParsedSym(vid, proto))


def make_ext_model(proto, optnames, real=None):
    """model of an external parser's `parse(message, ...)`.  Arguments are bound the way CPython binds them to the *real*
    function's signature (positional or keyword, defaults applied), so a call that passes options in the wrong order
    is seen as what it is."""
    import inspect
    sig = inspect.signature(real) if real is not None else None

    def model(ex, args, kwargs):
        st = ex.st
        if sig is not None:
            try:
                bound = sig.bind(*args, **kwargs)
            except TypeError as e:
                ex.bm.raise_(TypeError, str(e))
            bound.apply_defaults()
            raw = bound.arguments[next(iter(sig.parameters))]
            given = bound.arguments
        else:
            raw = args[0]
            given = kwargs
        opts = []
        for nm in optnames:
            v = given.get(nm)
            if v is None:
                raise Unsupported(f"{proto} parser called without option {nm}")
            opts.append(v)
        while len(opts) < 3:
            opts.append(0)
        status, val = ext_parse(ex, proto, raw, *opts)
        classes = ext_classes(proto)
        for i, cls in enumerate(classes):
            if st.branch(mk_bool(status.e == i + 1)):
                raise_exc = ExcVal(cls, (), tag=(proto, i + 1))
                from .exec import PyRaise
                raise PyRaise(raise_exc)
        st.assume(mk_bool(status.e == 0))
        return val

    return model


def eol(ex, data, q):
    """one past the first LF at or after q, or len(data) if there is none (memoised per (array, q) on the path)"""
    from .values import to_rope
    st = ex.st
    rope = to_rope(data)
    if len(rope.segs) != 1 or not hasattr(rope.segs[0], "base"):
        raise Unsupported("eol over a composite rope")
    seg = rope.segs[0]
    base, start, n = seg.base, zint(seg.start), zint(seg.len)
    qz = z3.simplify(zint(q) + start)
    tab = st.ghost.setdefault("eol", [])
    end = z3.simplify(start + n)
    for (b, qq, e, en) in tab:
        if b is base and qq.eq(qz) and en.eq(end):
            return mk_int(z3.simplify(e - start))
    e = z3.Int(fresh_name("eol"))
    st.assume(mk_bool(z3.And(e >= qz, e <= end)))
    st.assume(mk_bool(z3.Or(z3.And(e > qz, base(e - 1) == 0x0A), e == end)))

    def fact(j, lo=qz, hi=e, base=base):
        return z3.Implies(z3.And(j >= lo, j < hi - 1), base(j) != 0x0A)

    def fact2(j, lo=qz, hi=e, base=base, end=end):
        return z3.Implies(z3.And(hi == end, z3.Not(z3.And(hi > lo, base(hi - 1) == 0x0A)), j >= lo, j < hi),
                          base(j) != 0x0A)

    st.add_forall(fact)
    st.add_forall(fact2)
    st.add_trigger(e - 1)
    tab.append((base, qz, e, end))
    return mk_int(z3.simplify(e - start))


def logging_getlogger_model(ex, args, kwargs):
    return LoggerModel.new(ex)
