"""
Differential test of the engine (DESIGN 2.10 d, reduced): the *symbolic* path summaries the engine computes for a
function are evaluated at seeded concrete inputs and compared with CPython running the real function.

For every path of the function (symbolic inputs from the contract's parameter kinds) the engine records
(path condition, outcome) with outcome = return value term or exception class.  For each concrete input the unique path
whose condition is satisfied is selected with the solver (inputs asserted as equalities), its outcome is evaluated in
the model and compared with the native result.  A mismatch means the engine's model of Python (slicing, int/bytes
conversions, dict lookups, exceptions ...) is wrong: the check exits 3 (engine error), it is never a verdict about pyubx2.
Loop-free functions only (functions with loop contracts are summarised by their invariants, not by path summaries).
"""
from __future__ import annotations

import random

import z3

from . import extract
from .contracts import Contract
from .exec import Executor, PyRaise
from .state import State, PathEnd, guarded_check
from .values import (SBytes, SInt, SBool, Sym, Ref, Unsupported, ContractOutOfDate, zint, zbool, reset_names,
                     range_axioms)
from .verify import build_args, ContractFrame


def summarise(reg, contract, max_paths=400):
    """all paths of the function: list of (pc, inputs, outcome) ; outcome = ('return', value) | ('raise', class)"""
    finfo = extract.get_function(contract.qualname)
    out = []
    work = [()]
    n = 0
    while work:
        script = work.pop()
        n += 1
        if n > max_paths:
            return None
        reset_names()
        st = State(script, None)
        ex = Executor(st, reg)
        ex._defaults_module = finfo.module
        try:
            names, env, kw = build_args(ex, contract, finfo)
            from .verify import _eval_clause
            cfr = ContractFrame(finfo, dict(env))
            for _, text in contract.requires:
                st.assume(ex.bm.truth(_eval_clause(ex, text, cfr)))
            try:
                res = ex.call_funcinfo(finfo, [env[x] for x in names], kw or {}, verifying=True, contract=contract)
                outcome = ("return", res)
            except PyRaise as pr:
                outcome = ("raise", pr.exc.cls)
            out.append((list(st.pc) + st.axioms(), dict(st.inputs), outcome))
        except PathEnd:
            pass
        except (Unsupported, ContractOutOfDate):
            return None
        work.extend(st.pending)
    return out


def _assert_inputs(s, inputs, values):
    for name, d in inputs.items():
        v = values[name]
        if d[0] == "int":
            s.add(d[1] == int(v))
        elif d[0] == "bool":
            s.add(d[1] == bool(v))
        elif d[0] == "bytes":
            s.add(zint(d[2]) == len(v))
            for k, b in enumerate(v):
                s.add(d[1](k) == b)


def _eval_value(m, v):
    if isinstance(v, (SInt,)):
        return m.eval(v.e, model_completion=True).as_long()
    if isinstance(v, SBool):
        return z3.is_true(m.eval(v.e, model_completion=True))
    if isinstance(v, SBytes):
        n = m.eval(zint(v.length()), model_completion=True).as_long()
        return bytes(m.eval(v.at(k), model_completion=True).as_long() % 256 for k in range(n))
    if isinstance(v, tuple):
        return tuple(_eval_value(m, x) for x in v)
    if isinstance(v, (Sym, Ref)):
        return NotImplemented
    return v


def gen_value(kind, rnd):
    if kind == "bytes":
        r = rnd.random()
        n = rnd.choice([0, 1, 2, 3, 4, 6, 7, 8, 9, 10, 12, 16]) if r < 0.8 else rnd.randrange(0, 40)
        b = bytearray(rnd.randrange(256) for _ in range(n))
        if n >= 2 and rnd.random() < 0.6:
            b[0:2] = rnd.choice([b"\xb5\x62", b"\x24\x47", b"\xd3\x00", b"\xb5\x00"])
        if n >= 4 and rnd.random() < 0.5:
            b[2:4] = rnd.choice([b"\x06\x8b", b"\x06\x01", b"\x06\x31", b"\x01\x07", b"\x06\x02"])
        return bytes(b)
    if isinstance(kind, tuple) and kind[0] == "bytesn":
        return bytes(rnd.randrange(256) for _ in range(kind[1]))
    if kind in ("int",):
        return rnd.choice([0, 1, 2, 3, -1, 255, 256, 65535, 65536, -129, 1 << 31, (1 << 32) - 1, 1 << 63, -(1 << 63),
                           rnd.randrange(-(1 << 70), 1 << 70), rnd.randrange(0, 300)])
    if kind in ("nat", "byte", "u16", "boolint"):
        return rnd.randrange({"nat": 1 << 16, "byte": 256, "u16": 65536, "boolint": 2}[kind])
    if kind == "bool":
        return rnd.random() < 0.5
    return None


def difftest_unit(ctx, tier, seed, targets=None):
    """bounded unit: dict(what, bound, cases, failures)"""
    from .native import resolve
    reg = ctx.registry()
    rnd = random.Random(seed + 777)
    n = 60 if tier == "quick" else 1200
    H = "pyubx2.ubxhelpers."
    jobs = []
    for qn in (H + "getinputmode", H + "protocol", H + "isvalid_checksum", H + "msgclass2bytes"):
        jobs.append((qn, reg.contracts[qn]))
    for fam in (H + "val2bytes", H + "bytes2val"):
        for T, c in reg.families[fam][1].items():
            if T[0] in "EILUX" and int(T[1:4]) <= 16:
                jobs.append((f"{fam}[{T}]", c))
    fails = []
    cases = 0
    skipped = []
    for label, c in jobs:
        kinds = {k: v for k, v in c.params.items()}
        if any(callable(v) for v in kinds.values()):
            continue
        paths = summarise(reg, c)
        if paths is None:
            skipped.append(label)
            continue
        fobj = resolve(c.qualname)
        finfo = extract.get_function(c.qualname)
        names = [a.arg for a in finfo.node.args.args]
        for _ in range(n if "[" not in label else max(8, n // 6)):
            vals = {}
            for nm in names:
                k = kinds[nm]
                vals[nm] = k[1] if isinstance(k, tuple) and k[0] == "const" else gen_value(k, rnd)
            if any(v is None and not (isinstance(kinds[x], tuple) and kinds[x][0] == "const") for x, v in vals.items()):
                break
            if "bytes2val" in label and len(vals["valb"]) > int(vals["att"][1:4]):
                vals["valb"] = vals["valb"][:int(vals["att"][1:4])]
            # the contract's precondition bounds the domain the summaries were computed for
            try:
                from .native import native_env, eval_clause
                env = native_env(reg, finfo.module, vals)
                if not all(eval_clause(t, env, {}) for _, t in c.requires):
                    continue
            except Exception:  # noqa
                continue
            cases += 1
            try:
                want = ("return", fobj(*[vals[x] for x in names]))
            except Exception as e:  # noqa
                want = ("raise", type(e))
            got = None
            hits = 0
            for pc, inputs, outcome in paths:
                s = z3.Solver()
                s.set("timeout", 4000)
                for a in pc:
                    s.add(a)
                for a in range_axioms(pc):
                    s.add(a)
                _assert_inputs(s, inputs, vals)
                if guarded_check(s, 4000) == z3.sat:
                    hits += 1
                    m = s.model()
                    got = ("raise", outcome[1]) if outcome[0] == "raise" else ("return", _eval_value(m, outcome[1]))
            if hits != 1:
                fails.append({"case": f"{label}:paths", "detail": f"{hits} path conditions satisfied by input {vals!r}"[:200],
                              "inputs": {k: repr(v)[:80] for k, v in vals.items()}})
                continue
            if got[0] == "return" and got[1] is NotImplemented:
                continue
            ok = got[0] == want[0] and (got[1] == want[1] if got[0] == "return" else issubclass(want[1], got[1]) or issubclass(got[1], want[1]))
            if got[0] == "return" and isinstance(want[1], (list,)) and not ok:
                ok = list(got[1]) == want[1] if isinstance(got[1], (list, tuple)) else False
            if not ok:
                fails.append({"case": f"{label}:outcome", "detail": f"engine {got!r} vs CPython {want!r} for {vals!r}"[:240],
                              "inputs": {k: repr(v)[:80] for k, v in vals.items()}})
    return {"what": "engine path summaries evaluated at seeded concrete inputs == CPython on the real function "
                    "(loop-free helper functions; validates the built-in models A-PY4)",
            "bound": f"{len(jobs)} functions / family members x up to {n} inputs; skipped (not summarisable): {skipped}",
            "cases": cases, "failures": fails[:20], "exhaustive": False, "engine_guard": True}
