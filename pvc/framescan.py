"""
Frame scan: a syntactic frame rule over the real AST of *every* function of the package (DESIGN 0A.2).

The symbolic executor proves `modifies` clauses only for the functions under contract.  Functions outside it (for
example UBXMessage.__str__, the GNSS/time formatting helpers, the CLI-facing helpers) still take part in the claim "no
call changes shared state" (C13) and in the assumption every per-call proof rests on: module-level state is the state at
import time (A-GLOBAL).  This unit discharges that assumption with the frame rule a deductive verifier uses for
`assigns \\nothing`: a function can only change a location through one of a fixed set of syntactic forms -

    assignment / augmented assignment / del / for-target / with-target / walrus   whose target is
          X[...], X.attr  (store through a reference)  or a name declared `global` / `nonlocal`
    a call  X.m(...)  where m is a mutating method of a built-in container

and the *root* X of the target resolves to a module-level name (global variable, imported table) - i.e. it is neither a
parameter nor a local of the function.  Every such site is an obligation `frame:<function>:<line>` that fails.  Roots
that are parameters (`self`, caller-owned arguments) and locals are outside this rule: their frames are the `modifies`
clauses of the contracts (symbolic executor).  Aliasing of a global through a local (`t = TABLE; t[k] = v`) is followed
one step (a local whose every assignment is a bare module-level name, a subscript of one or a .get(...) on one is treated
as rooted there).

The rule is deliberately one-sided: it reports only writes whose target provably (syntactically) is module-level state,
so an edit that does not write such state cannot fail it.
"""
from __future__ import annotations

import ast
import os

from . import extract

MUTATORS = {"append", "extend", "insert", "remove", "pop", "clear", "sort", "reverse", "update", "setdefault", "popitem",
            "add", "discard", "difference_update", "intersection_update", "symmetric_difference_update",
            "__setitem__", "__delitem__", "appendleft", "popleft", "extendleft", "rotate"}


def _root(node):
    """root Name of an access path  a.b[c].d  -> 'a' (None when the path starts at a call or literal)"""
    while True:
        if isinstance(node, ast.Name):
            return node.id
        if isinstance(node, (ast.Attribute, ast.Subscript, ast.Starred)):
            node = node.value
            continue
        return None


class _FnScan(ast.NodeVisitor):
    def __init__(self, fn, module_names):
        self.fn = fn
        self.module_names = module_names
        a = fn.args
        self.params = {x.arg for x in a.posonlyargs + a.args + a.kwonlyargs}
        if a.vararg:
            self.params.add(a.vararg.arg)
        if a.kwarg:
            self.params.add(a.kwarg.arg)
        self.globals_decl = set()
        self.mutable_defaults = set()
        self.local_assigns = {}  # local name -> list of value nodes (None = bound by something opaque)
        self.sites = []  # (lineno, description)
        self._collect_bindings(fn)

    # -- pass 1: which names are local, and what are they bound to
    def _collect_bindings(self, fn):
        for node in ast.walk(fn):
            if node is not fn and isinstance(node, (ast.FunctionDef, ast.AsyncFunctionDef, ast.Lambda, ast.ClassDef)):
                continue
            if isinstance(node, (ast.Global, ast.Nonlocal)):
                self.globals_decl.update(node.names)
            elif isinstance(node, ast.Assign):
                for t in node.targets:
                    self._bind(t, node.value)
            elif isinstance(node, ast.AnnAssign) and node.value is not None:
                self._bind(node.target, node.value)
            elif isinstance(node, ast.AugAssign):
                self._bind(node.target, None)
            elif isinstance(node, (ast.For, ast.AsyncFor)):
                self._bind(node.target, None)
            elif isinstance(node, (ast.With, ast.AsyncWith)):
                for it in node.items:
                    if it.optional_vars is not None:
                        self._bind(it.optional_vars, None)
            elif isinstance(node, ast.NamedExpr):
                self._bind(node.target, node.value)
            elif isinstance(node, ast.ExceptHandler) and node.name:
                self.local_assigns.setdefault(node.name, []).append(None)
            elif isinstance(node, ast.comprehension):
                self._bind(node.target, None)
            elif isinstance(node, (ast.Import, ast.ImportFrom)):
                for al in node.names:
                    self.local_assigns.setdefault((al.asname or al.name).split(".")[0], []).append(None)

    def _bind(self, target, value):
        if isinstance(target, ast.Name):
            self.local_assigns.setdefault(target.id, []).append(value)
        elif isinstance(target, (ast.Tuple, ast.List)):
            for t in target.elts:
                self._bind(t, None)
        elif isinstance(target, ast.Starred):
            self._bind(target.value, None)

    def _is_local(self, name):
        return (name in self.params or name in self.local_assigns) and name not in self.globals_decl

    def _global_rooted(self, name, depth=0):
        """name denotes (a part of) module-level state"""
        if name in self.globals_decl:
            return True
        if name in self.mutable_defaults and name not in self.local_assigns:
            return True
        if name in self.params:
            return False
        if name in self.local_assigns:
            vals = self.local_assigns[name]
            if depth >= 2 or not vals or any(v is None for v in vals):
                return False
            for v in vals:
                if isinstance(v, ast.Call) and isinstance(v.func, ast.Attribute) and v.func.attr in ("get", "setdefault") :
                    v = v.func.value
                r = _root(v) if isinstance(v, (ast.Name, ast.Subscript, ast.Attribute)) else None
                if r is None or r == name or not self._global_rooted(r, depth + 1):
                    return False
            return True
        return name in self.module_names

    def _origin(self, name, depth=0):
        """the module-level name a (possibly aliased) root stands for"""
        if name in self.local_assigns and name not in self.globals_decl and depth < 3:
            for v in self.local_assigns[name]:
                if isinstance(v, ast.Call) and isinstance(v.func, ast.Attribute):
                    v = v.func.value
                r = _root(v) if v is not None else None
                if r and r != name:
                    return self._origin(r, depth + 1)
        return name

    def _store(self, target, node, how):
        if isinstance(target, (ast.Tuple, ast.List)):
            for t in target.elts:
                self._store(t, node, how)
            return
        if isinstance(target, ast.Starred):
            self._store(target.value, node, how)
            return
        if isinstance(target, ast.Name):
            if target.id in self.globals_decl:
                self.sites.append((node.lineno, f"{how} of global name {target.id}", target.id))
            return
        r = _root(target)
        if r is not None and self._global_rooted(r):
            self.sites.append((node.lineno, f"{how} through module-level name {r}: {ast.unparse(target)[:60]}",
                               self._origin(r)))

    # -- pass 2: writes
    def scan(self):
        for dec in self.fn.decorator_list:
            txt = ast.unparse(dec)
            if "cache" in txt.lower() or "memo" in txt.lower():
                # a memoising decorator is module-level state attached to the function: results (and, for mutable
                # results, their later mutations) are shared between calls
                self.sites.append((self.fn.lineno, f"memoising decorator @{txt[:40]}: results are shared between calls",
                                   "__decorator__"))
        # parameters whose default is a mutable object created once at definition time (`def f(x, memo={})`): a store
        # through such a parameter writes state that outlives the call exactly like a module-level container
        a = self.fn.args
        pos = a.posonlyargs + a.args
        for prm, dflt in list(zip(pos[len(pos) - len(a.defaults):], a.defaults)) + \
                [(k, d) for k, d in zip(a.kwonlyargs, a.kw_defaults) if d is not None]:
            if isinstance(dflt, (ast.Dict, ast.List, ast.Set, ast.ListComp, ast.DictComp, ast.SetComp)) or \
                    (isinstance(dflt, ast.Call) and ast.unparse(dflt.func) in ("dict", "list", "set", "bytearray", "defaultdict",
                                                                               "collections.defaultdict", "OrderedDict")):
                self.mutable_defaults.add(prm.arg)
        for node in ast.walk(self.fn):
            if isinstance(node, ast.Call):
                f = ast.unparse(node.func)
                # output channels: C13 says constructing / parsing / serialising / printing messages writes nothing to
                # stdout or stderr.  (The reader's error reporting through its logger is a different, specified channel.)
                if f == "print" or f.startswith(("sys.stdout", "sys.stderr", "warnings.warn", "sys.__stdout__", "sys.__stderr__")) \
                        or f in ("pprint", "pprint.pprint", "traceback.print_exc", "traceback.print_stack"):
                    self.sites.append((node.lineno, f"output call {f}(...)", "__output__"))
            if isinstance(node, ast.Assign):
                for t in node.targets:
                    self._store(t, node, "assignment")
            elif isinstance(node, ast.AnnAssign) and node.value is not None:
                self._store(node.target, node, "assignment")
            elif isinstance(node, ast.AugAssign):
                self._store(node.target, node, "augmented assignment")
            elif isinstance(node, ast.Delete):
                for t in node.targets:
                    self._store(t, node, "del")
            elif isinstance(node, (ast.For, ast.AsyncFor)):
                self._store(node.target, node, "loop target")
            elif isinstance(node, (ast.With, ast.AsyncWith)):
                for it in node.items:
                    if it.optional_vars is not None:
                        self._store(it.optional_vars, node, "with target")
            elif isinstance(node, ast.NamedExpr):
                self._store(node.target, node, "walrus")
            elif isinstance(node, ast.Call) and isinstance(node.func, ast.Attribute) and node.func.attr in MUTATORS:
                r = _root(node.func.value)
                if r is not None and self._global_rooted(r):
                    self.sites.append((node.lineno, f"mutating call .{node.func.attr}() on module-level name {r}: "
                                                    f"{ast.unparse(node.func.value)[:60]}", self._origin(r)))
        return self.sites


def module_level_names(tree):
    names = set()
    for node in tree.body:
        if isinstance(node, ast.Assign):
            for t in node.targets:
                for n in ast.walk(t):
                    if isinstance(n, ast.Name):
                        names.add(n.id)
        elif isinstance(node, (ast.AnnAssign, ast.AugAssign)):
            if isinstance(node.target, ast.Name):
                names.add(node.target.id)
        elif isinstance(node, (ast.Import, ast.ImportFrom)):
            for al in node.names:
                if al.name != "*":
                    names.add((al.asname or al.name).split(".")[0])
        elif isinstance(node, (ast.FunctionDef, ast.ClassDef, ast.AsyncFunctionDef)):
            names.add(node.name)
    return names


def _star_imports(tree, pkgdir):
    """names brought in by  from pyubx2.x import *"""
    out = set()
    for node in tree.body:
        if isinstance(node, ast.ImportFrom) and any(al.name == "*" for al in node.names) and node.module:
            p = os.path.join(os.path.dirname(pkgdir), *node.module.split(".")) + ".py"
            if os.path.exists(p):
                with open(p, "rb") as f:
                    out |= module_level_names(ast.parse(f.read()))
    return out


def table_roots():
    """names under which the shared definition / configuration tables are reachable in each module: the module-level
    names of pyubx2/ubxtypes_*.py and ubxvariants.py, and aliases of those modules"""
    pkgdir = os.path.join(extract.REPO_SRC, "pyubx2")
    names = set()
    for fn in sorted(os.listdir(pkgdir)):
        if fn.endswith(".py") and (fn.startswith("ubxtypes_") or fn == "ubxvariants.py"):
            with open(os.path.join(pkgdir, fn), "rb") as f:
                tree = ast.parse(f.read())
            for node in tree.body:
                if isinstance(node, (ast.Assign, ast.AnnAssign)):
                    for t in (node.targets if isinstance(node, ast.Assign) else [node.target]):
                        for n in ast.walk(t):
                            if isinstance(n, ast.Name):
                                names.add(n.id)
    return names


def _module_aliases(tree):
    out = set()
    for node in tree.body:
        if isinstance(node, ast.Import):
            for al in node.names:
                if "ubxtypes_" in al.name or al.name.endswith("ubxvariants"):
                    out.add(al.asname or al.name.split(".")[0])
        elif isinstance(node, ast.ImportFrom) and node.module in ("pyubx2", None):
            for al in node.names:
                if al.name.startswith("ubxtypes_") or al.name == "ubxvariants":
                    out.add(al.asname or al.name)
    return out


def scan_package():
    """-> [(qualname, lineno, [(site description, kind: table | state | output), ...])] for every function of the package"""
    pkgdir = os.path.join(extract.REPO_SRC, "pyubx2")
    tables = table_roots()
    out = []
    for fn in sorted(os.listdir(pkgdir)):
        if not fn.endswith(".py"):
            continue
        path = os.path.join(pkgdir, fn)
        with open(path, "rb") as f:
            tree = ast.parse(f.read())
        mod = "pyubx2." + fn[:-3]
        mnames = module_level_names(tree) | _star_imports(tree, pkgdir)
        troots = tables | _module_aliases(tree)

        def walk(node, prefix):
            for child in ast.iter_child_nodes(node):
                if isinstance(child, (ast.FunctionDef, ast.AsyncFunctionDef)):
                    q = f"{prefix}.{child.name}"
                    out.append((q, child.lineno, [(f"line {ln}: {d}", "output" if origin == "__output__" else
                                                   ("table" if origin in troots else "state"))
                                                  for ln, d, origin in _FnScan(child, mnames).scan()]))
                    walk(child, q)
                elif isinstance(child, ast.ClassDef):
                    walk(child, f"{prefix}.{child.name}")
                else:
                    walk(child, prefix)

        walk(tree, mod)
    return out


def frame_scan(ctx=None, prop="C13"):
    """ground unit: one obligation per function of the package: no write through a module-level root.
    A write to one of the shared definition / configuration tables contradicts C13 as stated (confirmed).  A write to
    other module-level state (a cache, a counter) removes the ground every per-call proof stands on - results are then
    functions of (arguments, that state) - but does not by itself contradict a property: such an obligation is
    *unconfirmed*, and counts as a violation only when the history probe (pvc/history.py) exhibits two operation orders
    with different results on the real code; otherwise the check answers undecided."""
    res = scan_package()
    assert res, "no functions found"
    for q, ln, sites in res:
        if prop != "C13":
            sites = [x for x in sites if x[1] != "output"]  # output channels are C13's subject only
        confirmed = prop == "C13" and any(k in ("table", "output") for _, k in sites)
        yield (f"frame[{q}]", not sites,
               "no store, del or mutating container call rooted at a module-level name, no memoising decorator, no write "
               "to stdout / stderr" + (": " + "; ".join(d for d, _ in sites) if sites else ""),
               {"function": q, "line": ln, "sites": [d for d, _ in sites],
                "shared_table": any(k == "table" for _, k in sites),
                "_unconfirmed": bool(sites) and not confirmed})


def replay_frame(o):
    """native replayer of a failed frame obligation: the history probe on the real code"""
    from . import history
    cases, fails = history.probe(4242)
    fn = (o.inputs or {}).get("function", "?")
    info = {"function": fn, "sites": (o.inputs or {}).get("sites"),
            "probe": f"{cases} operations in orders fwd / rev / shuffled and on 4 threads, each in a fresh interpreter"}
    if fails:
        info["reproduced"] = True
        info["observed"] = "; ".join(f"{f['case']}: {f['detail']}" for f in fails[:4])[:1500]
        info["witness"] = [f.get("inputs") for f in fails[:4]]
    else:
        info["reproduced"] = False
        info["note"] = "the history probe found no order of its operations with a different result"
    return info
