"""
Symbolic executor for the Python subset used by pyubx2 (see DESIGN.md 2.2).

Direct-style interpreter over the real AST.  One State = one path; forks are realised by
re-execution with a decision script (state.py).  Exceptions of the analysed program are
Python-level `PyRaise`; unsupported constructs raise `Unsupported` (=> UNDECIDED).
"""
from __future__ import annotations

import ast
import builtins as _bi
import types

import z3

from . import extract
from .state import State, PathEnd
from .values import (Sym, SInt, SBool, SBytes, SStr, SFloat, Ref, ExcVal, Fmt, Opaque, Unsupported,
                     ContractOutOfDate, zint, zbool, mk_int, mk_bool, mk_str, to_rope, is_byteslike,
                     as_const_int, zadd, zsub, zmax, zmin, fresh_name, LitSeg, CellSeg, ViewSeg,
                     i2f, fmul, fdiv, fadd, fround, f2i, fconst, FSort)


class PyRaise(Exception):
    def __init__(self, exc: ExcVal, cause=None):
        super().__init__(exc.cls.__name__)
        self.exc = exc
        self.cause = cause


class _Return(Exception):
    def __init__(self, value):
        self.value = value


class _Break(Exception):
    pass


class _Continue(Exception):
    pass


class Unbound:
    pass


UNBOUND = Unbound()


class Frame:
    def __init__(self, finfo, env, self_val=None):
        self.finfo = finfo
        self.env = env
        self.module = finfo.module if finfo else None
        self.old = {}  # ast.dump(expr) -> value, for old(...)
        self.contract = None
        self.verifying = False  # True for the function under verification (loop contracts apply)
        self.entry_env = dict(env)


def raise_py(cls, *args):
    raise PyRaise(ExcVal(cls, args))


def is_sym(v):
    return isinstance(v, (Sym, Ref))


def deep_is_concrete(v):
    if isinstance(v, (Sym, Ref, ExcVal)):
        return False
    if isinstance(v, (tuple, list)):
        return all(deep_is_concrete(x) for x in v)
    if isinstance(v, dict):
        return all(deep_is_concrete(x) for x in v.values())
    return True


class Executor:
    def __init__(self, st: State, registry):
        self.st = st
        self.reg = registry  # contracts, policies, spec functions, models
        self.frames = []
        from . import builtins_model
        self.bm = builtins_model.Models(self)

    # ------------------------------------------------------------------ functions
    def call_funcinfo(self, finfo, args, kwargs, self_val=None, verifying=False, contract=None):
        """execute the real body of `finfo` with the given actual arguments"""
        node = finfo.node
        env = self.bind_params(node, args, kwargs, finfo.qualname)
        fr = Frame(finfo, env)
        fr.verifying = verifying
        fr.contract = contract
        if len(self.frames) > 60:
            raise Unsupported("call depth > 60")
        self.frames.append(fr)
        try:
            result = None
            try:
                self.exec_block(node.body, fr)
            except _Return as r:
                result = r.value
            hook = getattr(self.reg, "post_hooks", {}).get(finfo.qualname)
            if hook is not None:
                hook(self, fr, result)
            return result
        finally:
            self.last_env = fr.env
            self.frames.pop()

    def bind_params(self, node, args, kwargs, qn):
        a = node.args
        env = {}
        params = [x.arg for x in a.posonlyargs + a.args]
        args = list(args)
        kwargs = dict(kwargs)
        if len(args) > len(params) and a.vararg is None:
            raise_py(TypeError, f"{qn}() takes {len(params)} positional arguments but {len(args)} were given")
        for name, val in zip(params, args):
            env[name] = val
        if a.vararg is not None:
            env[a.vararg.arg] = tuple(args[len(params):])
        ndef = len(a.defaults)
        kmap = kwargs.get("__kwmap__")
        for i, name in enumerate(params):
            if name in env:
                if name in kwargs:
                    raise_py(TypeError, f"{qn}() got multiple values for argument '{name}'")
                continue
            if name in kwargs:
                env[name] = kwargs.pop(name)
                continue
            di = i - (len(params) - ndef)
            if di >= 0:
                env[name] = self.eval_const_default(a.defaults[di])
            else:
                raise_py(TypeError, f"{qn}() missing required argument '{name}'")
        for kw, d in zip(a.kwonlyargs, a.kw_defaults):
            if kw.arg in kwargs:
                env[kw.arg] = kwargs.pop(kw.arg)
            elif d is not None:
                env[kw.arg] = self.eval_const_default(d)
            else:
                raise_py(TypeError, f"{qn}() missing keyword-only argument '{kw.arg}'")
        if a.kwarg is not None:
            if "__kwmap__" in kwargs:
                km = kwargs.pop("__kwmap__")
                if kwargs:
                    raise Unsupported("symbolic ** plus explicit keywords")
                env[a.kwarg.arg] = km
            else:
                env[a.kwarg.arg] = self.bm.make_kwargs(kwargs)
        elif kwargs:
            raise_py(TypeError, f"{qn}() got an unexpected keyword argument '{next(iter(kwargs))}'")
        return env

    def eval_const_default(self, node):
        # defaults are evaluated in the module namespace at definition time: constants / module names
        fr = Frame(None, {})
        fr.module = self._defaults_module
        return self.eval(node, fr)

    _defaults_module = None

    # ------------------------------------------------------------------ statements
    def exec_block(self, stmts, fr):
        for s in stmts:
            self.exec_stmt(s, fr)

    def exec_stmt(self, s, fr):
        m = getattr(self, "st_" + type(s).__name__, None)
        if m is None:
            raise Unsupported(f"statement {type(s).__name__} at {self.where(s, fr)}")
        return m(s, fr)

    def where(self, node, fr):
        fn = fr.finfo.qualname if fr.finfo else "?"
        return f"{fn}:{getattr(node, 'lineno', '?')}"

    def st_Expr(self, s, fr):
        if isinstance(s.value, ast.Constant):  # docstring
            return
        self.eval(s.value, fr)

    def st_Pass(self, s, fr):
        return

    def st_Return(self, s, fr):
        raise _Return(self.eval(s.value, fr) if s.value is not None else None)

    def st_Break(self, s, fr):
        raise _Break()

    def st_Continue(self, s, fr):
        raise _Continue()

    def st_Assign(self, s, fr):
        v = self.eval(s.value, fr)
        for t in s.targets:
            self.assign(t, v, fr)

    def st_AnnAssign(self, s, fr):
        if s.value is not None:
            self.assign(s.target, self.eval(s.value, fr), fr)

    def st_AugAssign(self, s, fr):
        t = s.target
        if isinstance(t, ast.Name):
            cur = self.load_name(t.id, fr, t)
            v = self.binop(type(s.op), cur, self.eval(s.value, fr), s, fr, inplace=True)
            fr.env[t.id] = v
        elif isinstance(t, ast.Attribute):
            obj = self.eval(t.value, fr)
            cur = self.get_attr(obj, t.attr, fr)
            v = self.binop(type(s.op), cur, self.eval(s.value, fr), s, fr, inplace=True)
            self.set_attr(obj, t.attr, v, fr)
        elif isinstance(t, ast.Subscript):
            obj = self.eval(t.value, fr)
            idx = self.eval_index(t.slice, fr)
            cur = self.subscript(obj, idx, fr)
            v = self.binop(type(s.op), cur, self.eval(s.value, fr), s, fr, inplace=True)
            self.store_subscript(obj, idx, v, fr)
        else:
            raise Unsupported("augassign target")

    def assign(self, t, v, fr):
        if isinstance(t, ast.Name):
            fr.env[t.id] = v
        elif isinstance(t, (ast.Tuple, ast.List)):
            items = self.unpack(v, len(t.elts), fr)
            for tt, vv in zip(t.elts, items):
                self.assign(tt, vv, fr)
        elif isinstance(t, ast.Attribute):
            obj = self.eval(t.value, fr)
            self.set_attr(obj, t.attr, v, fr)
        elif isinstance(t, ast.Subscript):
            obj = self.eval(t.value, fr)
            idx = self.eval_index(t.slice, fr)
            self.store_subscript(obj, idx, v, fr)
        else:
            raise Unsupported(f"assign target {type(t).__name__}")

    def unpack(self, v, n, fr):
        if isinstance(v, tuple) or isinstance(v, list):
            items = list(v)
        elif isinstance(v, Ref) and v.kind == "list":
            items = list(self.st.rec(v)["items"])
        elif isinstance(v, Ref) and v.kind == "tuple":
            items = list(self.st.rec(v)["items"])
        else:
            raise Unsupported(f"unpack of {type(v).__name__}")
        if len(items) != n:
            raise_py(ValueError, "not enough/too many values to unpack")
        return items

    def st_If(self, s, fr):
        c = self.truth(self.eval(s.test, fr), fr)
        if self.st.branch(c):
            self.exec_block(s.body, fr)
        else:
            self.exec_block(s.orelse, fr)

    def st_Raise(self, s, fr):
        if s.exc is None:
            raise Unsupported("bare raise")
        e = self.eval(s.exc, fr)
        cause = self.eval(s.cause, fr) if s.cause is not None else None
        if isinstance(e, type) and issubclass(e, BaseException):
            e = ExcVal(e, ())
        if not isinstance(e, ExcVal):
            raise_py(TypeError, "exceptions must derive from BaseException")
        raise PyRaise(e, cause)

    def st_Try(self, s, fr):
        if s.finalbody:
            raise Unsupported("try/finally")
        try:
            self.exec_block(s.body, fr)
        except PyRaise as pr:
            for h in s.handlers:
                if h.type is None:
                    match = True
                else:
                    ht = self.eval(h.type, fr)
                    classes = ht if isinstance(ht, tuple) else (ht,)
                    match = any(isinstance(c, type) and issubclass(pr.exc.cls, c) for c in classes)
                if match:
                    if h.name:
                        fr.env[h.name] = pr.exc
                    self.exec_block(h.body, fr)
                    if h.name:
                        fr.env.pop(h.name, None)
                    return
            raise
        else:
            self.exec_block(s.orelse, fr)

    def st_Assert(self, s, fr):
        c = self.truth(self.eval(s.test, fr), fr)
        if not self.st.branch(c):
            raise_py(AssertionError)

    def st_Import(self, s, fr):
        raise Unsupported("import inside function")

    def st_Global(self, s, fr):
        raise Unsupported("global statement")

    def st_Delete(self, s, fr):
        for t in s.targets:
            if isinstance(t, ast.Attribute):
                obj = self.eval(t.value, fr)
                self.del_attr(obj, t.attr, fr)
            elif isinstance(t, ast.Name):
                if t.id in fr.env:
                    del fr.env[t.id]
                else:
                    raise_py(UnboundLocalError, t.id)
            else:
                raise Unsupported("del target")

    # -- loops
    def loop_contract(self, s, fr):
        if fr.finfo is None:
            return None
        ordn = fr.finfo.loops.get(id(s))
        if fr.verifying and fr.contract is not None:
            return fr.contract.loops.get(ordn), ordn
        # an inlined callee: its loop contracts come from the registry (same sidecar contract object)
        c = self.reg.contracts.get(fr.finfo.qualname)
        if c is not None and c.loops.get(ordn) is not None:
            return c.loops.get(ordn), ordn
        return None

    def st_While(self, s, fr):
        lc = self.loop_contract(s, fr)
        if lc and lc[0] is not None:
            return self.bm.loops.while_with_contract(s, fr, lc[0], lc[1])
        # no contract: unroll while the condition is decidable, bounded
        n = 0
        while True:
            c = self.truth(self.eval(s.test, fr), fr)
            if is_sym(c):
                if not (self.st.must(c) or self.st.must(self.not_(c))):
                    raise Unsupported(f"while loop with symbolic condition and no loop contract at {self.where(s, fr)}")
            if not self.st.branch(c):
                break
            try:
                self.exec_block(s.body, fr)
            except _Break:
                return
            except _Continue:
                pass
            n += 1
            if n > 100000:
                raise Unsupported("while unroll bound")
        self.exec_block(s.orelse, fr)

    def st_For(self, s, fr):
        it = self.eval(s.iter, fr)
        lc = self.loop_contract(s, fr)
        seq = self.bm.concrete_iter(it)
        if seq is None:
            if lc and lc[0] is not None:
                return self.bm.loops.for_with_contract(s, fr, it, lc[0], lc[1])
            auto = self.bm.loops.auto_for(s, fr, it)
            if auto:
                return
            raise Unsupported(f"for over symbolic iterable without loop contract at {self.where(s, fr)}")
        for x in seq:
            self.assign(s.target, x, fr)
            try:
                self.exec_block(s.body, fr)
            except _Break:
                return
            except _Continue:
                continue
        self.exec_block(s.orelse, fr)

    # ------------------------------------------------------------------ expressions
    def eval(self, e, fr):
        m = getattr(self, "ex_" + type(e).__name__, None)
        if m is None:
            raise Unsupported(f"expression {type(e).__name__} at {self.where(e, fr)}")
        return m(e, fr)

    def ex_Constant(self, e, fr):
        return e.value

    def load_name(self, name, fr, node=None):
        if name in fr.env:
            v = fr.env[name]
            if v is UNBOUND:
                raise_py(UnboundLocalError, name)
            return v
        if fr.finfo is not None and name in self.local_names(fr.finfo):
            raise_py(UnboundLocalError, f"cannot access local variable '{name}'")
        spec = self.reg.spec_lookup(name, fr)
        if spec is None and fr.module is not None and fr.module.__name__.startswith("contracts.") \
                and name not in fr.module.__dict__:
            spec = self.reg.specs.get(name)  # specification code may use specification primitives
        if spec is not None:
            return spec
        if fr.module is not None and name in fr.module.__dict__:
            return fr.module.__dict__[name]
        if hasattr(_bi, name):
            return getattr(_bi, name)
        raise_py(NameError, name)

    _locals_cache = {}

    def local_names(self, finfo):
        key = finfo.node  # the node object itself: keeps it alive, so no id reuse
        if key not in self._locals_cache:
            names = set()
            fn = finfo.node

            class V(ast.NodeVisitor):
                def visit_Name(self, n):
                    if isinstance(n.ctx, (ast.Store, ast.Del)):
                        names.add(n.id)

                def visit_ExceptHandler(self, n):
                    if n.name:
                        names.add(n.name)
                    self.generic_visit(n)

                def visit_FunctionDef(self, n):
                    if n is fn:
                        self.generic_visit(n)

                def visit_Lambda(self, n):
                    pass

                def visit_GeneratorExp(self, n):
                    pass

                def visit_ListComp(self, n):
                    pass

            V().visit(fn)
            for a in fn.args.posonlyargs + fn.args.args + fn.args.kwonlyargs:
                names.add(a.arg)
            if fn.args.vararg:
                names.add(fn.args.vararg.arg)
            if fn.args.kwarg:
                names.add(fn.args.kwarg.arg)
            self._locals_cache[key] = names
        return self._locals_cache[key]

    def ex_Name(self, e, fr):
        return self.load_name(e.id, fr, e)

    def ex_Tuple(self, e, fr):
        return tuple(self.eval(x, fr) for x in e.elts)

    def ex_List(self, e, fr):
        items = [self.eval(x, fr) for x in e.elts]
        return self.st.alloc("list", None, items=items)

    def ex_Dict(self, e, fr):
        d = {}
        for k, v in zip(e.keys, e.values):
            if k is None:
                raise Unsupported("dict unpacking display")
            kk = self.eval(k, fr)
            if is_sym(kk):
                raise Unsupported("dict display with symbolic key")
            d[kk] = self.eval(v, fr)
        return self.st.alloc("dict", None, items=d)

    def ex_JoinedStr(self, e, fr):
        pieces = []
        for v in e.values:
            if isinstance(v, ast.Constant):
                pieces.append(v.value)
            else:
                pieces.append(self.format_value(v, fr))
        flat = []
        for p in pieces:
            if isinstance(p, SStr):
                flat.extend(p.pieces)
            else:
                flat.append(p)
        return mk_str(flat)

    def ex_FormattedValue(self, e, fr):
        p = self.format_value(e, fr)
        return mk_str(p.pieces if isinstance(p, SStr) else [p])

    def format_value(self, v, fr):
        val = self.eval(v.value, fr)
        spec = ""
        if v.format_spec is not None:
            sp = self.eval(v.format_spec, fr)
            if not isinstance(sp, str):
                raise Unsupported("symbolic format spec")
            spec = sp
        if v.conversion not in (-1, 115, 114):
            raise Unsupported("format conversion")
        return self.bm.format(val, spec, v.conversion)

    def ex_Attribute(self, e, fr):
        obj = self.eval(e.value, fr)
        return self.get_attr(obj, e.attr, fr)

    def ex_Subscript(self, e, fr):
        obj = self.eval(e.value, fr)
        idx = self.eval_index(e.slice, fr)
        return self.subscript(obj, idx, fr)

    def eval_index(self, sl, fr):
        if isinstance(sl, ast.Slice):
            lo = self.eval(sl.lower, fr) if sl.lower is not None else None
            hi = self.eval(sl.upper, fr) if sl.upper is not None else None
            step = self.eval(sl.step, fr) if sl.step is not None else None
            if step not in (None, 1):
                raise Unsupported("slice step")
            return slice(lo, hi)
        return self.eval(sl, fr)

    def ex_Slice(self, e, fr):
        return self.eval_index(e, fr)

    def ex_BinOp(self, e, fr):
        l = self.eval(e.left, fr)
        r = self.eval(e.right, fr)
        return self.binop(type(e.op), l, r, e, fr)

    def ex_UnaryOp(self, e, fr):
        v = self.eval(e.operand, fr)
        return self.bm.unaryop(type(e.op), v, fr)

    def ex_BoolOp(self, e, fr):
        # short-circuit, value-returning semantics
        isand = isinstance(e.op, ast.And)
        v = None
        for i, sub in enumerate(e.values):
            v = self.eval(sub, fr)
            if i == len(e.values) - 1:
                return v
            t = self.truth(v, fr)
            if not is_sym(t):
                if isand and not t:
                    return v
                if (not isand) and t:
                    return v
                continue
            # symbolic: if all remaining operands are pure boolean-ish and side-effect free we could merge,
            # but forking keeps exceptions in later operands exact.
            if self.st.branch(t):
                if not isand:
                    return v
            else:
                if isand:
                    return v
        return v

    def ex_IfExp(self, e, fr):
        c = self.truth(self.eval(e.test, fr), fr)
        if self.st.branch(c):
            return self.eval(e.body, fr)
        return self.eval(e.orelse, fr)

    def ex_Compare(self, e, fr):
        left = self.eval(e.left, fr)
        res = True
        for op, rn in zip(e.ops, e.comparators):
            right = self.eval(rn, fr)
            r = self.bm.compare(type(op), left, right, fr)
            if len(e.ops) == 1:
                return r
            # chained: short circuit
            t = self.truth(r, fr)
            if is_sym(t):
                if not self.st.branch(t):
                    return False
            elif not t:
                return False
            left = right
        return res

    def ex_Call(self, e, fr):
        # Python order: callee (incl. receiver) first, then positional, then keyword arguments
        if isinstance(e.func, ast.Name) and e.func.id == "implies" and len(e.args) == 2 and \
                getattr(fr, "spec_ok", False) and "implies" not in fr.env:
            a = self.truth(self.eval(e.args[0], fr), fr)  # lazy: the consequent is not evaluated when a is false
            if a is False:
                return True
            b = self.truth(self.eval(e.args[1], fr), fr)
            if a is True:
                return b
            if b is True:
                return True
            if b is False:
                return self.not_(a)
            return mk_bool(z3.Implies(zbool(a), zbool(b)))
        recv = f = None
        is_super = False
        if isinstance(e.func, ast.Attribute):
            if isinstance(e.func.value, ast.Call) and isinstance(e.func.value.func, ast.Name) \
                    and e.func.value.func.id == "super" and not e.func.value.args:
                is_super = True
            else:
                recv = self.eval(e.func.value, fr)
        else:
            f = self.eval(e.func, fr)
        args = []
        for a in e.args:
            if isinstance(a, ast.Starred):
                v = self.eval(a.value, fr)
                seq = self.bm.concrete_iter(v)
                if seq is None:
                    raise Unsupported("starred symbolic iterable")
                args.extend(seq)
            else:
                args.append(self.eval(a, fr))
        kwargs = {}
        for k in e.keywords:
            if k.arg is None:
                d = self.eval(k.value, fr)
                kwargs.update(self.bm.kwargs_items(d))
            else:
                kwargs[k.arg] = self.eval(k.value, fr)
        if is_super:
            return self.bm.super_call(e.func.attr, args, kwargs, fr)
        if isinstance(e.func, ast.Attribute):
            return self.call_method(recv, e.func.attr, args, kwargs, fr, e)
        return self.call_value(f, args, kwargs, fr, e)

    def ex_GeneratorExp(self, e, fr):
        return self.comprehension(e, fr, lazy=True)

    def ex_ListComp(self, e, fr):
        items = self.comprehension(e, fr)
        return self.st.alloc("list", None, items=items)

    def comprehension(self, e, fr, lazy=False):
        if len(e.generators) != 1:
            raise Unsupported("nested comprehension")
        g = e.generators[0]
        it = self.eval(g.iter, fr)
        seq = self.bm.concrete_iter(it)
        if seq is None:
            return self.bm.symbolic_comprehension(e, g, it, fr)
        out = []
        saved = dict(fr.env)
        for x in seq:
            self.assign(g.target, x, fr)
            ok = True
            for cond in g.ifs:
                if not self.st.branch(self.truth(self.eval(cond, fr), fr)):
                    ok = False
                    break
            if ok:
                out.append(self.eval(e.elt, fr))
        # comprehension variables do not leak
        for k in list(fr.env):
            if k not in saved:
                del fr.env[k]
        fr.env.update(saved)
        return out

    def ex_Lambda(self, e, fr):
        raise Unsupported("lambda")

    # ------------------------------------------------------------------ helpers delegating to models
    def truth(self, v, fr):
        return self.bm.truth(v)

    def not_(self, c):
        if isinstance(c, SBool):
            return mk_bool(z3.Not(c.e))
        return not c

    def binop(self, op, l, r, node, fr, inplace=False):
        return self.bm.binop(op, l, r, inplace)

    def subscript(self, obj, idx, fr):
        return self.bm.subscript(obj, idx)

    def store_subscript(self, obj, idx, v, fr):
        return self.bm.store_subscript(obj, idx, v)

    def get_attr(self, obj, name, fr):
        return self.bm.get_attr(obj, name)

    def set_attr(self, obj, name, v, fr):
        return self.bm.set_attr(obj, name, v)

    def del_attr(self, obj, name, fr):
        return self.bm.del_attr(obj, name)

    def call_method(self, recv, name, args, kwargs, fr, node=None):
        return self.bm.call_method(recv, name, args, kwargs)

    def call_value(self, f, args, kwargs, fr, node=None):
        return self.bm.call_value(f, args, kwargs)

    @property
    def frame(self):
        return self.frames[-1] if self.frames else None
