"""
Path state, decision scripts (re-execution style path exploration) and VC discharge.
"""
from __future__ import annotations

import time
import z3

from .values import (range_axioms, SBytes, SInt, SBool, Sym, Ref, zint, zbool, mk_bool, fresh_name, as_const_int,
                     Unsupported, IntS)

import os as _os
CROSSCHECK = bool(_os.environ.get("PVC_CROSSCHECK"))
SOLVER_TIMEOUT_MS = 10000
FEAS_TIMEOUT_MS = 1500


def guarded_check(s, timeout_ms, *assumptions):
    """solver.check() with a hard stop: z3 does not always honour its own timeout (observed: minutes inside one
    check); a timer thread interrupts the context shortly after the budget.  An interrupted check is `unknown`."""
    import threading
    t = threading.Timer(timeout_ms / 1000.0 + 1.0, s.ctx.interrupt)
    t.daemon = True
    t.start()
    try:
        return s.check(*assumptions)
    except z3.Z3Exception:
        return z3.unknown
    finally:
        t.cancel()


class PathEnd(Exception):
    """the current path is finished (loop cut, infeasible assumption)"""


class Stats:
    def __init__(self):
        self.solver_s = 0.0
        self.queries = 0
        self.feas_queries = 0
        self.by_backend = {"z3": 0, "cvc5": 0}


STATS = Stats()


class Obligation:
    __slots__ = ("name", "kind", "status", "model", "time", "detail", "assertions", "goal", "inputs", "path",
                 "backend", "unconfirmed")

    def __init__(self, name, kind):
        self.name = name
        self.kind = kind
        self.status = None  # 'unsat' (discharged) | 'sat' | 'unknown'
        self.model = None
        self.time = 0.0
        self.detail = ""
        self.inputs = None
        self.path = None
        self.backend = "z3"
        self.unconfirmed = False


class UFApp:
    """application of an uninterpreted function over bytes (spec functions, external parsers)"""
    __slots__ = ("fname", "rope", "extra", "results", "native", "bounded_def")

    def __init__(self, fname, rope, extra, results, native=None, bounded_def=None):
        self.bounded_def = bounded_def  # (rope, results) -> z3 fact: the definition unrolled for short ropes
        self.fname = fname
        self.rope = rope
        self.extra = extra  # tuple of z3 terms: further (non-bytes) arguments
        self.results = results  # tuple of z3 terms
        self.native = native  # executable definition: (bytes, *extra ints) -> tuple of ints, for ground instances


class State:
    """one execution path.  Re-execution style: `script` replays earlier decisions."""

    def __init__(self, script=(), collector=None):
        self.pc = []
        self.heap = {}
        self._next_id = 1
        self.ghost = {}
        self.ufapps = []
        self.skolems = []
        self.script = list(script)
        self.npre = len(self.script)  # decisions replayed from the parent run
        self.ndec = 0
        self.pending = []  # alternative scripts discovered on this run
        self.collector = collector
        self.writes = []  # (refid, field) heap writes and ('ghost', name)
        self.trace = []  # ordered attribute stores on message objects (for "payload order")
        self.labels = []  # human readable decisions, for reports
        self.inputs = {}  # name -> symbolic input description (for model decoding)
        self.depth = 0
        self.foralls = []  # python callables j -> z3 Bool: universally quantified facts, instantiated by hand
        self.triggers = []  # z3 Int terms at which every forall fact is instantiated
        self._s = z3.Solver()  # incremental solver mirroring pc (feasibility / must queries)
        self._s.set("timeout", FEAS_TIMEOUT_MS)
        self._synced = 0
        self._ranged = set()

    # -- heap
    def alloc(self, kind, cls=None, **rec):
        rid = self._next_id
        self._next_id += 1
        self.heap[rid] = rec
        return Ref(rid, kind, cls)

    def rec(self, ref):
        return self.heap[ref.id]

    # -- assumptions
    def assume(self, cond):
        if isinstance(cond, bool):
            if not cond:
                raise PathEnd()
            return
        e = zbool(cond)
        e = z3.simplify(e)
        if z3.is_true(e):
            return
        if z3.is_false(e):
            raise PathEnd()
        self.pc.append(e)

    def assume_raw(self, e):
        """assumption kept as written (z3's simplifier may rewrite case splits into pseudo-boolean atoms
        that the second back end cannot parse)"""
        self.pc.append(e)

    def new_territory(self):
        return self.ndec >= self.npre

    # -- decisions
    def branch(self, cond, label=""):
        """decide a (possibly symbolic) condition; forks by recording alternatives"""
        if isinstance(cond, bool):
            return cond
        if isinstance(cond, int) and not isinstance(cond, Sym):
            return bool(cond)
        if isinstance(cond, SInt):
            cond = SBool(cond.e != 0)
        if not isinstance(cond, SBool):
            raise Unsupported(f"branch on {type(cond).__name__}")
        e = z3.simplify(cond.e)
        if z3.is_true(e):
            return True
        if z3.is_false(e):
            return False
        if self.ndec < len(self.script):
            d = self.script[self.ndec]
            self.ndec += 1
            self.pc.append(e if d else z3.Not(e))
            return d
        # new decision
        can_t = self.feasible(e)
        can_f = self.feasible(z3.Not(e))
        if can_t and can_f:
            self.pending.append(self.script + [False])
            d = True
        elif can_t:
            d = True
        elif can_f:
            d = False
        else:
            raise PathEnd()
        self.script.append(d)
        self.ndec += 1
        self.pc.append(e if d else z3.Not(e))
        return d

    def choice(self, n, label=""):
        """pure nondeterministic n-way choice (loop cut: iteration / exit)"""
        # encoded as a sequence of binary decisions without conditions
        for i in range(n - 1):
            if self.ndec < len(self.script):
                d = self.script[self.ndec]
                self.ndec += 1
            else:
                self.pending.append(self.script + [False])
                d = True
                self.script.append(d)
                self.ndec += 1
            if d:
                return i
        return n - 1

    def _sync(self):
        new = self.pc[self._synced:]
        if new:
            for c in new:
                self._s.add(c)
            self._add_ranges(new)
            self._synced = len(self.pc)

    def _add_ranges(self, exprs):
        from .values import base_apps
        for e in exprs:
            for a in base_apps(e):
                i = a.get_id()
                if i not in self._ranged:
                    self._ranged.add(i)
                    self._s.add(z3.And(a >= 0, a <= 255))

    def feasible(self, e):
        self._sync()
        s = self._s
        # range facts about byte cells are true regardless of the query: add them permanently
        self._add_ranges([e])
        s.push()
        s.add(e)
        t0 = time.time()
        r = guarded_check(s, FEAS_TIMEOUT_MS)
        s.pop()
        STATS.solver_s += time.time() - t0
        STATS.feas_queries += 1
        return r != z3.unsat

    def must(self, cond):
        """True iff pc => cond is proved (used for engine-internal case decisions; unknown -> False)"""
        if isinstance(cond, bool):
            return cond
        e = z3.simplify(zbool(cond))
        if z3.is_true(e):
            return True
        if z3.is_false(e):
            return False
        return not self.feasible(z3.Not(e))

    # -- uninterpreted functions over bytes, congruence at solve time
    def uf_apply(self, fname, rope, extra, result_sorts, native=None, bounded_def=None):
        key = (fname, rope.key(), tuple(x.get_id() for x in extra))
        for app in self.ufapps:
            if (app.fname, app.rope.key(), tuple(x.get_id() for x in app.extra)) == key:
                return app.results
        res = tuple(z3.Const(fresh_name(f"{fname}_r{i}"), s) for i, s in enumerate(result_sorts))
        self.ufapps.append(UFApp(fname, rope, tuple(extra), res, native, bounded_def))
        return res

    def add_forall(self, fact):
        self.foralls.append(fact)

    def add_trigger(self, term):
        t = z3.simplify(term) if not isinstance(term, int) else z3.IntVal(term)
        for u in self.triggers:
            if u.eq(t):
                return
        self.triggers.append(t)

    def instances(self, exprs=()):
        """hand instantiation of the recorded forall-facts (sound: every instance of a true universally quantified
        fact is true).  Trigger terms: the recorded ones, the path's Skolem constants, and -- E-matching on the
        pattern base(j) -- every index at which a byte array is read in the VC."""
        out = []
        if not self.foralls:
            return out
        from .values import base_apps
        trig = {}
        for t in list(self.triggers) + list(self.skolems):
            trig[t.get_id()] = t
        for e in exprs:
            for a in base_apps(e):
                t = a.arg(0)
                trig[t.get_id()] = t
        trig = list(trig.values())[:400]
        for f in self.foralls:
            for t in trig:
                out.append(f(t))
        return out

    def skolem(self, prefix="k"):
        k = z3.Int(fresh_name(prefix))
        self.skolems.append(k)
        return k

    def axioms(self):
        """congruence instances for all pairs of UF applications (Skolemised antecedent)"""
        ax = []
        apps = self.ufapps
        for i in range(len(apps)):
            for j in range(i + 1, len(apps)):
                a, b = apps[i], apps[j]
                if a.fname != b.fname or len(a.extra) != len(b.extra):
                    continue
                la, lb = zint(a.rope.length()), zint(b.rope.length())
                ca, cb = a.rope.concrete_len(), b.rope.concrete_len()
                conj = [la == lb]
                if ca is not None and cb is not None:
                    if ca != cb:
                        continue
                    if ca <= 16:
                        conj = [a.rope.at(k) == b.rope.at(k) for k in range(ca)]
                    else:
                        kap = z3.Int(f"kap!{a.results[0].get_id()}!{b.results[0].get_id()}")
                        conj = [z3.Implies(z3.And(kap >= 0, kap < ca), a.rope.at(kap) == b.rope.at(kap))]
                elif ca is not None and ca <= 16:
                    conj += [a.rope.at(k) == b.rope.at(k) for k in range(ca)]
                elif cb is not None and cb <= 16:
                    conj += [a.rope.at(k) == b.rope.at(k) for k in range(cb)]
                else:
                    kap = z3.Int(f"kap!{a.results[0].get_id()}!{b.results[0].get_id()}")
                    conj.append(z3.Implies(z3.And(kap >= 0, kap < la), a.rope.at(kap) == b.rope.at(kap)))
                conj += [x == y for x, y in zip(a.extra, b.extra)]
                ax.append(z3.Implies(z3.And(*conj) if conj else z3.BoolVal(True),
                                     z3.And(*[x == y for x, y in zip(a.results, b.results)])))
        return ax

    # -- obligations
    def prove(self, name, goal, kind="assert", detail="", assume_after=True):
        """emit VC  pc /\\ axioms => goal.  Only in new territory (ancestors emitted the earlier ones)."""
        if isinstance(goal, bool):
            ge = z3.BoolVal(goal)
        else:
            ge = z3.simplify(zbool(goal))
        if self.new_territory() and self.collector is not None:
            ob = Obligation(name, kind)
            ob.detail = detail
            ob.path = list(self.labels)
            if z3.is_true(ge):
                ob.status = "unsat"
                ob.detail = (detail + " [trivial]").strip()
            else:
                self._discharge(ob, ge)
            self.collector.add(ob, self)
        if assume_after:
            self.assume(SBool(ge) if not isinstance(goal, bool) else goal)

    def _solver_with_context(self, extra):
        s = z3.Solver()
        s.set("timeout", SOLVER_TIMEOUT_MS)
        ax = self.axioms()
        ax = ax + self.instances(self.pc + ax + list(extra))
        for c in self.pc:
            s.add(c)
        for a in ax:
            s.add(a)
        for e in extra:
            s.add(e)
        for a in range_axioms(self.pc + ax + list(extra)):
            s.add(a)
        return s

    def _check(self, s, ob):
        t0 = time.time()
        r = guarded_check(s, SOLVER_TIMEOUT_MS)
        dt = time.time() - t0
        STATS.solver_s += dt
        STATS.queries += 1
        ob.time += dt
        if r == z3.unsat:
            STATS.by_backend["z3"] += 1
            if CROSSCHECK:
                # thorough tier: every VC z3 discharges is re-checked by cvc5; a definite disagreement is an engine/solver
                # problem (undecided), never a pass
                from .cvc5backend import check_smt2
                r2 = check_smt2(s.to_smt2(), 5000)
                if r2 == "unsat":
                    STATS.by_backend["cvc5_agree"] = STATS.by_backend.get("cvc5_agree", 0) + 1
                elif r2 == "sat":
                    STATS.by_backend["cvc5_disagree"] = STATS.by_backend.get("cvc5_disagree", 0) + 1
                    ob.detail += " [SOLVER DISAGREEMENT: z3 unsat, cvc5 sat]"
                    return "unknown"
                else:
                    STATS.by_backend["cvc5_no_answer"] = STATS.by_backend.get("cvc5_no_answer", 0) + 1
            return "unsat"
        if r == z3.sat:
            return "sat"
        from .cvc5backend import check_smt2
        r2 = check_smt2(s.to_smt2(), SOLVER_TIMEOUT_MS)
        if r2 == "unsat":
            ob.backend = "cvc5"
            STATS.by_backend["cvc5"] += 1
            return "unsat"
        if r2 == "sat":
            # refuted by the second back end only: no model to replay -> a violation only if the native replay /
            # search of the check confirms it, otherwise undecided (see check.finish)
            ob.backend = "cvc5"
            ob.detail += " [z3: unknown; cvc5: sat, no model]"
            ob.unconfirmed = True
            return "sat"
        ob.detail += f" [z3: {s.reason_unknown()}; cvc5: {r2[:80]}]"
        return "unknown"

    def _discharge(self, ob, ge):
        # a long conjunction (bytewise equality of ropes) is proved as a chain: conjunct i under
        # conjuncts < i.  This is the per-digit lemma chain of DESIGN 2.8 for wide integer codecs.
        conj = list(ge.children()) if z3.is_and(ge) and ge.num_args() > 8 else None
        if conj is not None:
            proved = []
            for c in conj:
                s = self._solver_with_context(proved + [z3.Not(c)])
                r = self._check(s, ob)
                if r != "unsat":
                    conj = None
                    break
                proved.append(c)
            if conj is not None:
                ob.status = "unsat"
                ob.detail = (ob.detail + f" [chain of {len(proved)} conjuncts]").strip()
                return
        s = self._solver_with_context([z3.Not(ge)])
        r = self._check(s, ob)
        ob.status = r
        if r == "sat" and not ob.unconfirmed:
            ob.model = self._minimise(s)
            self._refine_uf(s, ob)

    def _refine_uf(self, s, ob):
        """counter-models may interpret a spec function (e.g. fletcher8) arbitrarily.  Ground instances of the
        executable definition at the model's concrete arguments are *true* facts; add them and re-solve until
        the model agrees with the definition (=> replayable) or the VC becomes unsat (=> discharged)."""
        napp = [a for a in self.ufapps if a.native is not None]
        if not napp:
            return
        added = 0
        defs = [a.bounded_def(a.rope, a.results) for a in napp if a.bounded_def is not None]
        if defs:
            for f in defs:
                s.add(f)
            for a in range_axioms(defs):
                s.add(a)
            added += len(defs)
            r = self._check(s, ob)
            if r == "unsat":
                ob.status = "unsat"
                ob.model = None
                ob.detail = (ob.detail + " [discharged with the spec definitions unrolled for short inputs]").strip()
                return
            if r != "sat":
                ob.status = "unknown"
                ob.model = None
                return
            ob.model = self._minimise(s)
        for _ in range(40):
            m = ob.model
            facts = []
            for a in napp:
                try:
                    n = m.eval(zint(a.rope.length()), model_completion=True).as_long()
                    if n < 0 or n > 2048:
                        continue
                    bs = bytes(m.eval(a.rope.at(k), model_completion=True).as_long() % 256 for k in range(n))
                    ex = [m.eval(x, model_completion=True).as_long() for x in a.extra]
                    want = a.native(bs, *ex)
                    got = [m.eval(r, model_completion=True).as_long() for r in a.results]
                except Exception:
                    continue
                if list(want) != got:
                    same = [zint(a.rope.length()) == n] + [a.rope.at(k) == bs[k] for k in range(n)] + \
                           [x == v for x, v in zip(a.extra, ex)]
                    facts.append(z3.Implies(z3.And(*same), z3.And(*[r == w for r, w in zip(a.results, want)])))
            if not facts:
                if added:
                    ob.detail = (ob.detail + f" [model consistent with spec definitions after {added} ground instances]").strip()
                return
            for f in facts:
                s.add(f)
            for a in range_axioms(facts):
                s.add(a)
            added += len(facts)
            r = self._check(s, ob)
            if r == "unsat":
                ob.status = "unsat"
                ob.model = None
                ob.detail = (ob.detail + f" [discharged with {added} ground instances of spec definitions]").strip()
                return
            if r != "sat":
                ob.status = "unknown"
                ob.model = None
                return
            ob.model = self._minimise(s)
        ob.detail = (ob.detail + " [model not made consistent with spec definitions within 40 rounds]").strip()

    def _minimise(self, s):
        """prefer a counter-model with short byte strings (iterative bound on every bytes input)"""
        lens = [zint(d[2]) for d in self.inputs.values() if d[0] in ("bytes", "stream", "socket") and not isinstance(d[2], int)]
        lens = [l for l in lens if not z3.is_int_value(l)]
        best = s.model()
        if not lens:
            return best
        for bound in (0, 1, 2, 3, 4, 6, 8, 10, 12, 16, 24, 32, 64, 256):
            s.push()
            for l in lens:
                s.add(l <= bound)
            t0 = time.time()
            r = guarded_check(s, SOLVER_TIMEOUT_MS)
            STATS.solver_s += time.time() - t0
            if r == z3.sat:
                best = s.model()
                s.pop()
                return best
            s.pop()
        return best

    def record_write(self, loc):
        self.writes.append(loc)
