"""
Function-level verification (mode M) and contract application at call sites.
"""
from __future__ import annotations

import ast
import time
import traceback

import z3

from . import extract
from .contracts import Contract, parse_expr, old_subexprs
from .exec import Executor, Frame, PyRaise, UNBOUND
from .state import State, PathEnd, Obligation, STATS
from .values import (Sym, SInt, SBool, SBytes, SStr, SFloat, Ref, ExcVal, Unsupported, ContractOutOfDate,
                     zint, zbool, mk_int, mk_bool, fresh_name, Base, FSort, reset_names)

MAX_PATHS = 20000


class Collector:
    def __init__(self):
        self.obligations = []
        self.unsupported = []  # (function, message)
        self.paths = 0
        self.functions = {}  # qualname -> {'paths': n, 'obligations': n}

    def add(self, ob, st):
        self.obligations.append(ob)
        if ob.status == "sat":
            try:
                ob.inputs = decode_inputs(st, ob.model)
            except Exception as e:  # decoding must never turn into a verdict
                ob.inputs = {"__decode_error__": repr(e)}
            ob.model = None

    def failed(self):
        return [o for o in self.obligations if o.status == "sat"]

    def unknown(self):
        return [o for o in self.obligations if o.status not in ("sat", "unsat")]

    def discharged(self):
        return [o for o in self.obligations if o.status == "unsat"]


class ContractFrame(Frame):
    """frame in which contract clauses are evaluated (spec functions visible, `old` resolved)"""

    def __init__(self, finfo, env, olds=None):
        super().__init__(finfo, env)
        self.spec_ok = True
        self.olds = olds or {}


def _eval_clause(ex, text, cfr):
    node = parse_expr(text)
    node2 = _OldResolver(cfr).visit(_copy(node))
    ast.fix_missing_locations(node2)
    ex.frames.append(cfr)
    try:
        try:
            return ex.eval(node2, cfr)
        except PyRaise as pr:
            if issubclass(pr.exc.cls, NameError):
                # e.g. a final_<local> witness of a local that was renamed: the contract is out of date (undecided)
                raise ContractOutOfDate(f"contract clause `{text}` refers to a name that is not bound") from None
            raise
    finally:
        ex.frames.pop()


def _copy(node):
    import copy
    return copy.deepcopy(node)


class _OldResolver(ast.NodeTransformer):
    def __init__(self, cfr):
        self.cfr = cfr

    def visit_Call(self, n):
        if isinstance(n.func, ast.Name) and n.func.id == "old" and len(n.args) == 1:
            key = ast.dump(n.args[0])
            if key not in self.cfr.olds:
                raise ContractOutOfDate(f"old({ast.unparse(n.args[0])}) was not snapshotted")
            name = "__old_%d" % (abs(hash(key)) % (10 ** 9))
            self.cfr.env[name] = self.cfr.olds[key]
            return ast.copy_location(ast.Name(id=name, ctx=ast.Load()), n)
        return self.generic_visit(n)


def snapshot_olds(ex, contract, cfr, clauses):
    for _, text in clauses:
        for oc in old_subexprs(parse_expr(text)):
            key = ast.dump(oc.args[0])
            if key in cfr.olds:
                continue
            ex.frames.append(cfr)
            try:
                cfr.olds[key] = ex.eval(oc.args[0], cfr)
            finally:
                ex.frames.pop()


# ------------------------------------------------------------------------------------ inputs
def make_input(ex, name, kind):
    st = ex.st
    if callable(kind):
        return kind(ex, name)
    if isinstance(kind, tuple) and kind[0] == "const":
        return kind[1]
    if kind == "bytes" or kind == "bytearray":
        n = z3.Int(f"{name}_len")
        st.assume(mk_bool(n >= 0))
        b = Base(name)
        st.inputs[name] = ("bytes", b, n)
        return SBytes.view(b, 0, n, kind)
    if isinstance(kind, tuple) and kind[0] == "bytesn":
        b = Base(name)
        st.inputs[name] = ("bytes", b, z3.IntVal(kind[1]))
        return SBytes.view(b, 0, kind[1])
    if kind in ("int", "nat", "byte", "u16"):
        e = z3.Int(name)
        if kind == "nat":
            st.assume(mk_bool(e >= 0))
        if kind == "byte":
            st.assume(mk_bool(z3.And(e >= 0, e <= 255)))
        if kind == "u16":
            st.assume(mk_bool(z3.And(e >= 0, e <= 65535)))
        st.inputs[name] = ("int", e)
        return SInt(e)
    if kind == "bool":
        e = z3.Bool(name)
        st.inputs[name] = ("bool", e)
        return SBool(e)
    if kind == "boolint":
        e = z3.Int(name)
        st.assume(mk_bool(z3.Or(e == 0, e == 1)))
        st.inputs[name] = ("int", e)
        return SInt(e)
    if kind == "float":
        e = z3.Const(name, FSort)
        st.inputs[name] = ("float", e)
        return SFloat(e)
    if isinstance(kind, tuple) and kind[0] == "bytelist":
        items = []
        descr = []
        for i in range(kind[1]):
            e = z3.Int(f"{name}_{i}")
            st.assume(mk_bool(z3.And(e >= 0, e <= 255)))
            items.append(SInt(e))
            descr.append(("int", e))
        st.inputs[name] = ("list", descr)
        return st.alloc("list", None, items=items)
    raise Unsupported(f"input kind {kind!r} for {name}")


def decode_inputs(st, model):
    out = {}
    for name, d in st.inputs.items():
        out[name] = decode_one(d, model)
    return out


def decode_one(d, model):
    kind = d[0]
    if kind == "int":
        v = model.eval(d[1], model_completion=True)
        return v.as_long()
    if kind == "bool":
        return z3.is_true(model.eval(d[1], model_completion=True))
    if kind == "bytes":
        n = model.eval(zint(d[2]), model_completion=True).as_long()
        n = max(0, min(n, 1 << 20))
        bs = []
        for k in range(n):
            v = model.eval(d[1](k), model_completion=True).as_long()
            bs.append(v % 256)
        return bytes(bs)
    if kind == "float":
        return {"__float__": str(model.eval(d[1], model_completion=True))}
    if kind == "const":
        return d[1]
    if kind in ("stream", "socket"):
        n = max(0, min(model.eval(zint(d[2]), model_completion=True).as_long(), 1 << 16))
        bs = bytes(model.eval(d[1](k), model_completion=True).as_long() % 256 for k in range(n))
        out = {"data": bs, "pos": model.eval(zint(d[3]), model_completion=True).as_long()}
        if kind == "stream":
            out["style"] = d[4]
        return out
    if kind == "obj":
        return {k: decode_one(v, model) for k, v in d[1].items()}
    if kind == "list":
        return [decode_one(v, model) for v in d[1]]
    return None


# ------------------------------------------------------------------------------------ verification of one function
class FunctionResult:
    def __init__(self, qualname):
        self.qualname = qualname
        self.paths = 0
        self.unsupported = []
        self.error = None
        self.time = 0.0
        self.outcomes = {}  # outcome class -> count (coverage / vacuity information)


def verify_function(reg, contract: Contract, collector: Collector, label=None, max_paths=MAX_PATHS, hooks=None):
    """explore every path of the real body of contract.qualname against the contract"""
    qn = contract.qualname
    finfo = extract.get_function(qn)
    fres = FunctionResult(label or qn)
    t0 = time.time()
    work = [()]
    while work:
        script = work.pop()
        fres.paths += 1
        if fres.paths > max_paths:
            fres.unsupported.append(f"path budget {max_paths} exceeded")
            break
        reset_names()
        st = State(script, collector)
        ex = Executor(st, reg)
        ex._defaults_module = finfo.module
        try:
            run_one_path(ex, reg, contract, finfo, fres, label or qn, hooks)
        except PathEnd:
            pass
        except Unsupported as u:
            fres.unsupported.append(str(u))
        except ContractOutOfDate as u:
            fres.unsupported.append("CONTRACT-OUT-OF-DATE: " + str(u))
        except RecursionError:
            fres.unsupported.append("recursion limit in engine")
        work.extend(st.pending)
    fres.time = time.time() - t0
    collector.functions[label or qn] = fres
    for u in fres.unsupported:
        collector.unsupported.append((label or qn, u))
    return fres


def build_args(ex, contract, finfo):
    """symbolic actual arguments from the contract's parameter kinds"""
    a = finfo.node.args
    names = [x.arg for x in a.posonlyargs + a.args] + [x.arg for x in a.kwonlyargs]
    env = {}
    for nm in names:
        if nm not in contract.params:
            raise ContractOutOfDate(f"{contract.qualname}: parameter {nm} has no kind in the contract")
        if contract.params[nm] == ("default",):
            # the parameter is omitted by the caller: its value is the function's own default expression
            pos = [x.arg for x in a.posonlyargs + a.args]
            dnode = None
            if nm in pos:
                di = pos.index(nm) - (len(pos) - len(a.defaults))
                dnode = a.defaults[di] if di >= 0 else None
            else:
                dnode = dict(zip([x.arg for x in a.kwonlyargs], a.kw_defaults)).get(nm)
            if dnode is None:
                raise ContractOutOfDate(f"{contract.qualname}: parameter {nm} has no default value any more")
            if ex._defaults_module is None:
                ex._defaults_module = finfo.module
            env[nm] = ex.eval_const_default(dnode)
            continue
        env[nm] = make_input(ex, nm, contract.params[nm])
    for nm in contract.params:
        if nm not in names and nm != "**":
            raise ContractOutOfDate(f"{contract.qualname}: contract names parameter {nm} which the function lacks")
    kw = {}
    if a.kwarg is not None:
        spec = contract.params.get("**")
        if spec is not None:
            kw = spec(ex, a.kwarg.arg) if callable(spec) else dict(spec)
    return names, env, kw


def run_one_path(ex, reg, contract, finfo, fres, label, hooks=None):
    st = ex.st
    names, env, kw = build_args(ex, contract, finfo)
    if contract.setup:
        contract.setup(ex, env)
    cfr = ContractFrame(finfo, dict(env))
    from .builtins_model import KwMap
    if kw is not None and (kw or isinstance(kw, KwMap)):
        cfr.env["kwargs"] = kw if isinstance(kw, KwMap) else KwMap(kw)
    if isinstance(kw, KwMap):
        kw = {"__kwmap__": kw}
    for lab, text in contract.requires:
        v = _eval_clause(ex, text, cfr)
        st.assume(ex.bm.truth(v))
    entry_max_id = st._next_id
    snapshot_olds(ex, contract, cfr, contract.ensures + contract.ensures_exc +
                  [("r", t) for t in contract.raises.values() if t] + [("r", t) for t in contract.raises_iff.values()])
    st.writes = []
    args = [env[n] for n in names]
    outcome = None
    try:
        res = ex.call_funcinfo(finfo, args, kw, verifying=True, contract=contract)
        outcome = ("return", res)
        for k, v in getattr(ex, "last_env", {}).items():  # existential witnesses: final value of a local
            if v is not UNBOUND:
                cfr.env.setdefault("final_" + k, v)
    except PyRaise as pr:
        outcome = ("raise", pr.exc)
    check_post(ex, reg, contract, finfo, cfr, outcome, label, entry_max_id)
    key = outcome[0] if outcome[0] == "return" else "raise:" + outcome[1].cls.__name__
    if st.new_territory() or True:
        fres.outcomes[key] = fres.outcomes.get(key, 0) + 1
    if hooks and "path_end" in hooks:
        hooks["path_end"](ex, cfr, outcome)


def exc_allowed(contract, cls):
    for name in contract.raises:
        for c in cls.__mro__:
            if c.__name__ == name:
                return name
    return None


def check_post(ex, reg, contract, finfo, cfr, outcome, label, entry_max_id):
    st = ex.st
    if outcome[0] == "return":
        cfr.env["result"] = outcome[1]
        for cname, cond in contract.raises_iff.items():
            v = _eval_clause(ex, cond, cfr)
            st.prove(f"{label}/raises-iff:{cname}", ex.not_(ex.bm.truth(v)), kind="raises",
                     detail=f"normal return although `{cond}` demands {cname}", assume_after=False)
        for lab, text in contract.ensures:
            try:
                v = _eval_clause(ex, text, cfr)
            except PyRaise as pr:  # the clause is not even evaluable on this result (e.g. len() of a non-sequence)
                st.prove(f"{label}/ensures:{lab}", False, kind="ensures",
                         detail=f"{text} -- evaluating the clause raised {pr.exc.cls.__name__}", assume_after=False)
                continue
            st.prove(f"{label}/ensures:{lab}", ex.bm.truth(v), kind="ensures", detail=text, assume_after=False)
    else:
        exc = outcome[1]
        cfr.env["exc"] = exc
        name = exc_allowed(contract, exc.cls)
        if name is None:
            st.prove(f"{label}/raises:only-declared", False, kind="raises",
                     detail=f"undeclared exception {exc.cls.__name__} escapes", assume_after=False)
        else:
            cond = contract.raises[name]
            if cond:
                v = _eval_clause(ex, cond, cfr)
                st.prove(f"{label}/raises:{name}:when", ex.bm.truth(v), kind="raises", detail=cond, assume_after=False)
            for lab, text in contract.ensures_exc:
                v = _eval_clause(ex, text, cfr)
                st.prove(f"{label}/ensures-exc:{lab}", ex.bm.truth(v), kind="ensures", detail=text, assume_after=False)
    # frame condition
    bad = []
    allowed = resolve_modifies(ex, contract, cfr)
    for w in st.writes:
        if w[0] == "ghost":
            if ("ghost", w[1]) not in allowed:
                bad.append(f"ghost.{w[1]}")
        else:
            rid, field = w
            if rid >= entry_max_id:
                continue
            if (rid, field) in allowed or (rid, "*") in allowed:
                continue
            bad.append(f"#{rid}.{field}")
    st.prove(f"{label}/modifies", not bad, kind="modifies", detail="writes outside the frame: " + ", ".join(sorted(set(bad))),
             assume_after=False)


def resolve_modifies(ex, contract, cfr):
    allowed = set()
    for m in contract.modifies:
        if m.startswith("ghost."):
            allowed.add(("ghost", m[6:]))
            continue
        objexpr, attr = m.rsplit(".", 1)
        key = "modobj:" + objexpr
        if key not in cfr.olds:
            try:
                cfr.olds[key] = _eval_clause(ex, objexpr, cfr)
            except PyRaise:
                continue
        obj = cfr.olds[key]
        if isinstance(obj, Ref):
            allowed.add((obj.id, attr))
    return allowed


# ------------------------------------------------------------------------------------ call sites
def apply_contract(ex, contract: Contract, fobj, args, kwargs, constructing=None):
    """modular call: prove the precondition, then continue with exactly what the contract promises"""
    st = ex.st
    qn = contract.qualname
    finfo = extract.get_function(qn)
    caller = ex.frames[-1].finfo.qualname if ex.frames and ex.frames[-1].finfo else "?"
    if constructing is not None:
        selfobj = ex.bm.new_object(constructing)
        st.rec(selfobj)["open"] = True
        args = [selfobj] + list(args[1:])
    st.ghost.setdefault("calls", []).append(qn)  # control-flow ghost: which contracts were applied on this path
    env = ex.bind_params(finfo.node, args, kwargs, qn)
    for nm_, v_ in list(env.items()):  # values whose Python kind is fixed by the callee's type argument
        if hasattr(v_, "resolve") and isinstance(env.get("att"), str):
            env[nm_] = v_.resolve(ex, env["att"])
    cfr = ContractFrame(finfo, env)
    for lab, text in contract.requires:
        v = _eval_clause(ex, text, cfr)
        st.prove(f"{caller}/call-pre:{qn.split('.')[-1]}:{lab}", ex.bm.truth(v), kind="call-pre", detail=text)
    snapshot_olds(ex, contract, cfr, contract.ensures + contract.ensures_exc +
                  [("r", t) for t in contract.raises.values() if t] + [("r", t) for t in contract.raises_iff.values()])
    # which outcomes are possible here?
    outcomes = []
    iff = {}
    for cname, cond in contract.raises_iff.items():
        iff[cname] = ex.bm.truth(_eval_clause(ex, cond, cfr))
    for cname, cond in contract.raises.items():
        c = ex.bm.truth(_eval_clause(ex, cond, cfr)) if cond else True
        if c is False:
            continue
        if isinstance(c, SBool) and not st.feasible(c.e):
            continue
        outcomes.append((cname, c))
    normal_cond = True
    for cname, c in iff.items():
        normal_cond = ex.bm.and_(normal_cond, ex.not_(c))
    normal_ok = normal_cond is not False and (not isinstance(normal_cond, SBool) or st.feasible(normal_cond.e))
    opts = ([("__normal__", normal_cond)] if normal_ok else []) + outcomes
    if not opts:
        raise PathEnd()
    which = st.choice(len(opts), f"call:{qn}") if len(opts) > 1 else 0
    cname, cond = opts[which]
    st.assume(cond)
    apply_modifies_havoc(ex, contract, cfr)
    if cname == "__normal__":
        if constructing is not None:
            result = args[0]
        else:
            binds = False
            for lab, text in contract.ensures:
                n = parse_expr(text)
                if isinstance(n, ast.Compare) and len(n.ops) == 1 and isinstance(n.ops[0], ast.Eq) \
                        and isinstance(n.left, ast.Name) and n.left.id == "result":
                    binds = True
            result = None if binds else fresh_result(ex, contract)
        if isinstance(result, Ref) and result.kind == "obj" and contract.fresh_fields:
            st.rec(result)["open"] = True
            for fname, kind in contract.fresh_fields.items():
                if isinstance(kind, tuple) and kind[0] == "bytesn":
                    val = SBytes.view(Base(fname), 0, kind[1])
                else:
                    val = ex.bm.loops.fresh(kind, fname)
                st.rec(result)["fields"][fname] = val
        cfr.env["result"] = result
        for lab, text in contract.ensures:
            for n in ast.walk(parse_expr(text)):
                if isinstance(n, ast.Name) and n.id.startswith("final_") and n.id not in cfr.env:
                    cfr.env[n.id] = ex.bm.loops.fresh("int", n.id)  # existential witness of the callee
        rest = []
        bound = set()
        for lab, text in contract.ensures:  # pass 1: clauses that define result / fields (`x == E`); first one wins
            tgt = bind_target(text)
            if tgt is not None and tgt in bound:
                rest.append(text)
                continue
            r = bind_clause(ex, text, cfr)
            if r:
                if tgt is not None and r != "vacuous":
                    bound.add(tgt)
            else:
                rest.append(text)
        for text in rest:  # pass 2: everything else is assumed
            v = _eval_clause(ex, text, cfr)
            st.assume(ex.bm.truth(v))
        return cfr.env["result"]
    cls = resolve_exc_class(finfo, cname)
    exc = ExcVal(cls, ())
    cfr.env["exc"] = exc
    for lab, text in contract.ensures_exc:
        if bind_clause(ex, text, cfr):
            continue
        v = _eval_clause(ex, text, cfr)
        st.assume(ex.bm.truth(v))
    raise PyRaise(exc)


def resolve_exc_class(finfo, cname):
    import builtins
    import struct as _struct
    if hasattr(builtins, cname):
        return getattr(builtins, cname)
    if cname == "struct.error" or cname == "error":
        return _struct.error
    mod = finfo.module
    for ns in (mod.__dict__,):
        if cname in ns:
            return ns[cname]
    for v in mod.__dict__.values():
        if hasattr(v, "__dict__") and hasattr(v, cname) and isinstance(getattr(v, cname), type):
            return getattr(v, cname)
    import pyubx2.exceptions as ube
    if hasattr(ube, cname):
        return getattr(ube, cname)
    raise ContractOutOfDate(f"exception class {cname} not resolvable for {finfo.qualname}")


def fresh_result(ex, contract):
    r = contract.returns
    if r is None:
        return None
    if callable(r):
        return r(ex)
    if isinstance(r, tuple) and r[0] == "bytesn":
        return SBytes.view(Base("res"), 0, r[1])
    if isinstance(r, tuple) and r[0] == "tuple":
        return tuple(ex.bm.loops.fresh(k, "res") for k in r[1])
    return ex.bm.loops.fresh(r, "res")


def apply_modifies_havoc(ex, contract, cfr):
    """everything in the callee's frame is unknown after the call unless an ensures clause re-binds it"""
    st = ex.st
    for m in contract.modifies:
        if m.startswith("ghost."):
            st.record_write(("ghost", m[6:]))
            continue
        objexpr, attr = m.rsplit(".", 1)
        obj = _eval_clause(ex, objexpr, cfr)
        if not isinstance(obj, Ref):
            continue
        if attr == "*":
            st.record_write((obj.id, "*"))
            continue
        try:
            cur = ex.bm.get_attr(obj, attr)
        except PyRaise:
            cur = None
        try:
            new = ex.bm.loops.havoc_like(cur, attr)
        except Unsupported:
            new = cur
        ex.bm.set_attr(obj, attr, new, direct=True)


def bind_target(text):
    node = parse_expr(text)
    if isinstance(node, ast.Call) and isinstance(node.func, ast.Name) and node.func.id == "implies" and len(node.args) == 2:
        node = node.args[1]
    if isinstance(node, ast.Compare) and len(node.ops) == 1 and isinstance(node.ops[0], (ast.Eq, ast.Is)):
        return ast.unparse(node.left)
    return None


def bind_clause(ex, text, cfr):
    """`result == E`, `result.f == E`, `self.a.b == E`: bind instead of assume (keeps terms structural)"""
    node = parse_expr(text)
    if isinstance(node, ast.Call) and isinstance(node.func, ast.Name) and node.func.id == "implies" \
            and len(node.args) == 2:
        c = ex.bm.truth(_eval_clause(ex, ast.unparse(node.args[0]), cfr))
        if bind_target(ast.unparse(node.args[1])) is None:
            return False
        if ex.st.branch(c):  # symbolic antecedent: case split, then the consequent defines the location
            return bind_clause(ex, ast.unparse(node.args[1]), cfr)
        return "vacuous"
    if isinstance(node, ast.Compare) and len(node.ops) == 1 and isinstance(node.ops[0], ast.Is) \
            and isinstance(node.comparators[0], ast.Constant) and node.comparators[0].value is None:
        node = ast.Compare(left=node.left, ops=[ast.Eq()], comparators=[ast.Constant(value=None)])
    if not (isinstance(node, ast.Compare) and len(node.ops) == 1 and isinstance(node.ops[0], ast.Eq)):
        return False
    lhs, rhs = node.left, node.comparators[0]
    if isinstance(lhs, ast.Name) and lhs.id == "result":
        cur = cfr.env.get("result")
        if isinstance(cur, Ref):
            return False
        cfr.env["result"] = _eval_clause(ex, ast.unparse(rhs), cfr)
        return True
    if isinstance(lhs, ast.Attribute):
        root = lhs
        while isinstance(root, ast.Attribute):
            root = root.value
        if isinstance(root, ast.Name) and root.id in ("result", "self"):
            obj = _eval_clause(ex, ast.unparse(lhs.value), cfr)
            if isinstance(obj, Ref) and obj.kind == "obj":
                val = _eval_clause(ex, ast.unparse(rhs), cfr)
                ex.bm.set_attr(obj, lhs.attr, val, direct=True)
                return True
    return False


# ------------------------------------------------------------------------------------ lemmas
def verify_lemma(reg, name, module_name, params, requires, goal, collector, setup=None, max_paths=5000, allow=()):
    """prove a clause over real functions (used by contract or body per registry policy) and spec functions"""
    mod = extract.load_module(module_name)[0]
    fres = FunctionResult(name)
    t0 = time.time()
    work = [()]
    while work:
        script = work.pop()
        fres.paths += 1
        if fres.paths > max_paths:
            fres.unsupported.append("path budget exceeded")
            break
        reset_names()
        st = State(script, collector)
        ex = Executor(st, reg)
        ex._defaults_module = mod
        try:
            env = {}
            for nm, kind in params.items():
                env[nm] = make_input(ex, nm, kind)
            if setup:
                setup(ex, env)
            cfr = ContractFrame(None, env)
            cfr.module = mod
            for i, text in enumerate(requires):
                st.assume(ex.bm.truth(_eval_clause(ex, text, cfr)))
            goals = goal if isinstance(goal, (list, tuple)) else [("goal", goal)]
            try:
                for lab, g in goals:
                    v = _eval_clause(ex, g, cfr)
                    st.prove(f"{name}:{lab}" if len(goals) > 1 else name, ex.bm.truth(v), kind="lemma", detail=g,
                             assume_after=False)
                fres.outcomes["evaluated"] = fres.outcomes.get("evaluated", 0) + 1
            except PyRaise as pr:
                if any(c.__name__ in allow for c in pr.exc.cls.__mro__):
                    # the lemma is conditional on the call returning; a declared rejection makes this path vacuous
                    fres.outcomes["rejected"] = fres.outcomes.get("rejected", 0) + 1
                else:
                    st.prove(name, False, kind="lemma", detail=f"evaluating the lemma raised {pr.exc.cls.__name__}",
                             assume_after=False)
                    fres.outcomes["raised"] = fres.outcomes.get("raised", 0) + 1
        except PathEnd:
            pass
        except Unsupported as u:
            fres.unsupported.append(str(u))
        except ContractOutOfDate as u:
            fres.unsupported.append("CONTRACT-OUT-OF-DATE: " + str(u))
        work.extend(st.pending)
    fres.time = time.time() - t0
    collector.functions[name] = fres
    for u in fres.unsupported:
        collector.unsupported.append((name, u))
    return fres
