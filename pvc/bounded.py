"""
Bounded stand-ins (native enumeration / seeded sampling on the real code).  They are labelled `bounded`
in the evidence and never counted among discharged obligations.  A failure here is still a violation
(a concrete failing input on the real code).
"""
from __future__ import annotations

import math
import random
import struct


def _res(what, bound, cases, failures, exhaustive=False):
    return {"what": what, "bound": bound, "cases": cases, "failures": failures[:20], "exhaustive": exhaustive}


def float_codec(ctx, tier, seed):
    """R004/R008: val2bytes(bytes2val(b)) == b for non-NaN bit patterns; bytes2val(val2bytes(x)) == x for doubles"""
    from pyubx2.ubxhelpers import val2bytes, bytes2val
    rnd = random.Random(seed + 18)
    n = 20000 if tier == "quick" else 400000
    fails = []
    cases = 0
    edge4 = [0, 1, 0x7F7FFFFF, 0x7F800000, 0xFF800000, 0x80000000, 0x00800000, 0x007FFFFF, 0x3F800000]
    for i in range(n):
        u = edge4[i] if i < len(edge4) else rnd.getrandbits(32)
        b = u.to_bytes(4, "little")
        x = bytes2val(b, "R004")
        cases += 1
        if math.isnan(x):
            continue
        if val2bytes(x, "R004") != b:
            fails.append({"case": f"R004:{b.hex()}", "detail": "val2bytes(bytes2val(b)) != b", "inputs": {"b": b.hex()}})
    for i in range(n):
        u = rnd.getrandbits(64)
        b = u.to_bytes(8, "little")
        x = bytes2val(b, "R008")
        cases += 1
        if math.isnan(x):
            continue
        if val2bytes(x, "R008") != b or bytes2val(val2bytes(x, "R008"), "R008") != x:
            fails.append({"case": f"R008:{b.hex()}", "detail": "R008 round trip", "inputs": {"b": b.hex()}})
    return _res("IEEE-754 float codecs R004/R008, bit patterns", f"{n} seeded patterns per width + edges", cases, fails)


def itow_utc(ctx, tier, seed):
    """utc2itow(week start + itow) recovers itow; itow2utc agrees with integer arithmetic"""
    from datetime import datetime, timedelta
    from pyubx2.ubxhelpers import itow2utc, utc2itow
    rnd = random.Random(seed + 181)
    EPOCH = datetime(1980, 1, 6)
    fails = []
    cases = 0
    windows = 3 if tier == "quick" else 40
    width = 20000 if tier == "quick" else 200000
    starts = [0, 604800000 - width, 18000 - width // 2] + [rnd.randrange(0, 604800000 - width) for _ in range(windows)]
    for st in starts:
        for itow in range(max(st, 0), max(st, 0) + width):
            cases += 1
            t = itow2utc(itow)
            secs = (itow // 1000 - 18) % 86400
            ms = itow % 1000
            want = (secs // 3600, secs // 60 % 60, secs % 60)
            if (t.hour, t.minute, t.second) != want or abs(t.microsecond - ms * 1000) > 1:
                fails.append({"case": f"itow2utc:{itow}", "detail": f"{t} != {want}.{ms:03d}", "inputs": {"itow": itow}})
                break
    # utc2itow over random weeks and every kind of boundary
    for _ in range(20000 if tier == "quick" else 400000):
        wno = rnd.randrange(0, 4000)
        itow = rnd.choice([0, 1, 999, 1000, 18000, 17999, 604799999, 604799000, rnd.randrange(0, 604800000)])
        utc = EPOCH + timedelta(weeks=wno) + timedelta(milliseconds=itow - 18000)
        cases += 1
        w2, i2 = utc2itow(utc)
        # the function is defined relative to the GPS week of the UTC instant (no leap offset on the week number)
        wk = int((utc - EPOCH).total_seconds() // 604800) if utc >= EPOCH else -1
        exp_itow = round(((utc - (EPOCH + timedelta(weeks=wk))).total_seconds() + 18) * 1000)
        if utc >= EPOCH and (w2 != wk or abs(i2 - exp_itow) > 1):
            fails.append({"case": f"utc2itow:{utc.isoformat()}", "detail": f"got {(w2, i2)} want {(wk, exp_itow)}",
                          "inputs": {"utc": utc.isoformat()}})
    return _res("itow2utc / utc2itow vs integer arithmetic", f"{len(starts)} windows x {width} ms + seeded instants", cases, fails)


def val2sphp(ctx, tier, seed):
    """val2sphp(v, s): sp + hp/100 reproduces v/s to within one hp unit; |hp| <= 100"""
    from pyubx2.ubxhelpers import val2sphp as f
    rnd = random.Random(seed + 182)
    fails = []
    n = 50000 if tier == "quick" else 1000000
    cases = 0
    for i in range(n):
        scale = rnd.choice([1e-7, 1e-2, 1e-3, 1.0])
        v = rnd.uniform(-180, 180) if scale == 1e-7 else rnd.uniform(-1e7, 1e7) * scale
        sp, hp = f(v, scale)
        cases += 1
        if not (isinstance(sp, int) and isinstance(hp, int) and abs(hp) <= 100 and abs((sp + hp / 100) - v / scale) <= 0.0051 * max(1.0, abs(v / scale) * 1e-9 * 100)):
            fails.append({"case": f"val2sphp:{v!r}:{scale}", "detail": f"got {(sp, hp)}", "inputs": {"v": v, "scale": scale}})
    return _res("val2sphp decomposition", f"{n} seeded values", cases, fails)


def att_names(ctx, tier, seed):
    """att2idx / att2name over every attribute name the definition tables can generate (complete for that domain
    up to the index bound) : att2name(name_ii[_jj]) == name and att2idx == indices"""
    from pyubx2.ubxhelpers import att2idx, att2name
    from pyubx2 import UBX_PAYLOADS_GET, UBX_PAYLOADS_SET, UBX_PAYLOADS_POLL
    fails = []
    cases = 0
    maxi = 300 if tier == "quick" else 66000

    def names(d, depth):
        for k, v in d.items():
            if isinstance(v, tuple) and isinstance(v[1], dict):
                if isinstance(v[0], str) and v[0][0] == "X" and v[0][1:].isdigit():
                    for kk in v[1]:
                        yield kk, depth
                    yield k, depth
                else:
                    yield from names(v[1], depth + 1)
            else:
                yield k, depth

    seen = set()
    for tab in (UBX_PAYLOADS_GET, UBX_PAYLOADS_SET, UBX_PAYLOADS_POLL):
        for d in tab.values():
            for nm, depth in names(d, 0):
                if (nm, depth) in seen:
                    continue
                seen.add((nm, depth))
                if "_" in nm.lstrip("_")[0:] and depth == 0:
                    # names containing '_' (e.g. _HPlat has a leading one) are outside the helpers' documented domain
                    pass
                base = nm
                if "_" in base:
                    continue
                if depth == 0:
                    cases += 1
                    if att2idx(nm) != 0 or att2name(nm) != nm:
                        fails.append({"case": nm, "detail": "ungrouped name", "inputs": {"att": nm}})
                elif depth == 1:
                    for i in list(range(1, min(maxi, 300))) + ([maxi, 65535] if maxi > 300 else []):
                        a = f"{nm}_{i:02d}"
                        cases += 1
                        if att2idx(a) != i or att2name(a) != nm:
                            fails.append({"case": a, "detail": f"{att2idx(a)}, {att2name(a)}", "inputs": {"att": a}})
                            break
                else:
                    for i in (1, 2, 10, 99, 100, 255):
                        for j in (1, 4, 12):
                            a = f"{nm}_{i:02d}_{j:02d}"
                            cases += 1
                            if att2idx(a) != (i, j) or att2name(a) != nm:
                                fails.append({"case": a, "detail": f"{att2idx(a)}", "inputs": {"att": a}})
    return _res("att2idx/att2name over table-generated names", f"all {len(seen)} (name, depth) pairs x indices <= {maxi}",
                cases, fails, exhaustive=False)
