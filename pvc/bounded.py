"""
Bounded stand-ins (native enumeration / seeded sampling on the real code).  They are labelled `bounded`
in the evidence and never counted among discharged obligations.  A failure here is still a violation
(a concrete failing input on the real code).
"""
from __future__ import annotations

import math
import random
import struct


def _res(what, bound, cases, failures, exhaustive=False):
    return {"what": what, "bound": bound, "cases": cases, "failures": failures[:20], "exhaustive": exhaustive}


def float_codec(ctx, tier, seed):
    """R004/R008: val2bytes(bytes2val(b)) == b for non-NaN bit patterns; bytes2val(val2bytes(x)) == x for doubles"""
    from pyubx2.ubxhelpers import val2bytes, bytes2val
    rnd = random.Random(seed + 18)
    n = 20000 if tier == "quick" else 400000
    fails = []
    cases = 0
    edge4 = [0, 1, 0x7F7FFFFF, 0x7F800000, 0xFF800000, 0x80000000, 0x00800000, 0x007FFFFF, 0x3F800000]
    for i in range(n):
        u = edge4[i] if i < len(edge4) else rnd.getrandbits(32)
        b = u.to_bytes(4, "little")
        x = bytes2val(b, "R004")
        cases += 1
        if math.isnan(x):
            continue
        if val2bytes(x, "R004") != b:
            fails.append({"case": f"R004:{b.hex()}", "detail": "val2bytes(bytes2val(b)) != b", "inputs": {"b": b.hex()}})
    for i in range(n):
        u = rnd.getrandbits(64)
        b = u.to_bytes(8, "little")
        x = bytes2val(b, "R008")
        cases += 1
        if math.isnan(x):
            continue
        if val2bytes(x, "R008") != b or bytes2val(val2bytes(x, "R008"), "R008") != x:
            fails.append({"case": f"R008:{b.hex()}", "detail": "R008 round trip", "inputs": {"b": b.hex()}})
    return _res("IEEE-754 float codecs R004/R008, bit patterns", f"{n} seeded patterns per width + edges", cases, fails)


def itow_utc(ctx, tier, seed):
    """utc2itow(week start + itow) recovers itow; itow2utc agrees with integer arithmetic"""
    from datetime import datetime, timedelta
    from pyubx2.ubxhelpers import itow2utc, utc2itow
    rnd = random.Random(seed + 181)
    EPOCH = datetime(1980, 1, 6)
    fails = []
    cases = 0
    windows = 3 if tier == "quick" else 40
    width = 20000 if tier == "quick" else 200000
    starts = [0, 604800000 - width, 18000 - width // 2] + [rnd.randrange(0, 604800000 - width) for _ in range(windows)]
    for st in starts:
        for itow in range(max(st, 0), max(st, 0) + width):
            cases += 1
            t = itow2utc(itow)
            secs = (itow // 1000 - 18) % 86400
            ms = itow % 1000
            want = (secs // 3600, secs // 60 % 60, secs % 60)
            if (t.hour, t.minute, t.second) != want or abs(t.microsecond - ms * 1000) > 1:
                fails.append({"case": f"itow2utc:{itow}", "detail": f"{t} != {want}.{ms:03d}", "inputs": {"itow": itow}})
                break
    # utc2itow over random weeks and every kind of boundary.  The instant is built from integers, so the expected
    # answer is known exactly (no tolerance): week w, time of week i  <->  EPOCH + w weeks + (i - 18000) ms
    W = 604800000
    for _ in range(20000 if tier == "quick" else 400000):
        wno = rnd.randrange(1, 4000)
        itow = rnd.choice([0, 1, 999, 1000, 18000, 17999, 18001, 19013, 604799999, 604799000, rnd.randrange(0, W),
                           rnd.randrange(0, W), rnd.randrange(0, W)])
        utc = EPOCH + timedelta(weeks=wno) + timedelta(milliseconds=itow - 18000)
        cases += 1
        w2, i2 = utc2itow(utc)
        # the week number carries no leap offset: the first 18 s of time of week fall into the previous UTC week
        want = (wno, itow) if itow >= 18000 else (wno - 1, itow + W)
        if (w2, i2) != want:
            fails.append({"case": f"utc2itow:{utc.isoformat()}", "detail": f"got {(w2, i2)} want {want}",
                          "inputs": {"utc": utc.isoformat()}})
            if len(fails) > 8:
                break
        t = itow2utc(i2)
        if (t.hour, t.minute, t.second, t.microsecond) != (utc.hour, utc.minute, utc.second, utc.microsecond):
            fails.append({"case": f"pair:{utc.isoformat()}", "detail": f"itow2utc(utc2itow(t)[1]) = {t} for t = {utc.time()}",
                          "inputs": {"utc": utc.isoformat()}})
    return _res("itow2utc / utc2itow vs integer arithmetic", f"{len(starts)} windows x {width} ms + seeded instants", cases, fails)


def itow_exhaustive(ctx, tier, seed, k, parts):
    """thorough tier: every millisecond time of week in chunk k of `parts`: itow2utc against integer arithmetic, and
    utc2itow(instant of week 2300 with that time of week) returns that time of week (pair consistency)"""
    from datetime import datetime, timedelta
    from pyubx2.ubxhelpers import itow2utc, utc2itow
    EPOCH = datetime(1980, 1, 6)
    W = 604800000
    lo, hi = W * k // parts, W * (k + 1) // parts
    base = EPOCH + timedelta(weeks=2300) - timedelta(milliseconds=18000)
    fails = []
    cases = 0
    ms1 = timedelta(milliseconds=1)
    utc = base + timedelta(milliseconds=lo)
    for itow in range(lo, hi):
        cases += 1
        t = itow2utc(itow)
        secs = (itow // 1000 - 18) % 86400
        if t.hour * 3600 + t.minute * 60 + t.second != secs or abs(t.microsecond - (itow % 1000) * 1000) > 1:
            fails.append({"case": f"itow2utc:{itow}", "detail": f"{t} for itow {itow}", "inputs": {"itow": itow}})
            if len(fails) > 5:
                break
        w2, i2 = utc2itow(utc)
        # instants in the first 18 s of the UTC week belong to the previous GPS week's numbering in this function's
        # convention (no leap offset on the week number): the time of week then exceeds one week
        want_w, want_i = (2300, itow) if itow >= 18000 else (2299, itow + W)
        if (w2, i2) != (want_w, want_i):
            fails.append({"case": f"utc2itow:{utc.isoformat()}", "detail": f"got {(w2, i2)} want {(want_w, want_i)}",
                          "inputs": {"utc": utc.isoformat()}})
            if len(fails) > 5:
                break
        utc += ms1
    return _res("itow2utc vs integer arithmetic and utc2itow pair consistency, every millisecond of a week",
                f"chunk {k + 1}/{parts}: itow in [{lo}, {hi}) (exhaustive over this range), week 2300", cases, fails, exhaustive=True)


def val2sphp(ctx, tier, seed):
    """val2sphp(v, s): sp + hp/100 reproduces v/s to within one hp unit; |hp| <= 100"""
    from pyubx2.ubxhelpers import val2sphp as f
    rnd = random.Random(seed + 182)
    fails = []
    n = 50000 if tier == "quick" else 1000000
    cases = 0
    for i in range(n):
        scale = rnd.choice([1e-7, 1e-2, 1e-3, 1.0])
        v = rnd.uniform(-180, 180) if scale == 1e-7 else rnd.uniform(-1e7, 1e7) * scale
        sp, hp = f(v, scale)
        cases += 1
        if not (isinstance(sp, int) and isinstance(hp, int) and abs(hp) <= 100 and abs((sp + hp / 100) - v / scale) <= 0.0051 * max(1.0, abs(v / scale) * 1e-9 * 100)):
            fails.append({"case": f"val2sphp:{v!r}:{scale}", "detail": f"got {(sp, hp)}", "inputs": {"v": v, "scale": scale}})
    return _res("val2sphp decomposition", f"{n} seeded values", cases, fails)


def att_names(ctx, tier, seed):
    """att2idx / att2name over every attribute name the definition tables can generate (complete for that domain
    up to the index bound) : att2name(name_ii[_jj]) == name and att2idx == indices"""
    from pyubx2.ubxhelpers import att2idx, att2name
    from pyubx2 import UBX_PAYLOADS_GET, UBX_PAYLOADS_SET, UBX_PAYLOADS_POLL
    fails = []
    cases = 0
    maxi = 300 if tier == "quick" else 66000

    def names(d, depth):
        for k, v in d.items():
            if isinstance(v, tuple) and isinstance(v[1], dict):
                if isinstance(v[0], str) and v[0][0] == "X" and v[0][1:].isdigit():
                    for kk in v[1]:
                        yield kk, depth
                    yield k, depth
                else:
                    yield from names(v[1], depth + 1)
            else:
                yield k, depth

    seen = set()
    for tab in (UBX_PAYLOADS_GET, UBX_PAYLOADS_SET, UBX_PAYLOADS_POLL):
        for d in tab.values():
            for nm, depth in names(d, 0):
                if (nm, depth) in seen:
                    continue
                seen.add((nm, depth))
                if "_" in nm.lstrip("_")[0:] and depth == 0:
                    # names containing '_' (e.g. _HPlat has a leading one) are outside the helpers' documented domain
                    pass
                base = nm
                if "_" in base:
                    continue
                if depth == 0:
                    cases += 1
                    if att2idx(nm) != 0 or att2name(nm) != nm:
                        fails.append({"case": nm, "detail": "ungrouped name", "inputs": {"att": nm}})
                elif depth == 1:
                    for i in list(range(1, min(maxi, 300))) + ([maxi, 65535] if maxi > 300 else []):
                        a = f"{nm}_{i:02d}"
                        cases += 1
                        if att2idx(a) != i or att2name(a) != nm:
                            fails.append({"case": a, "detail": f"{att2idx(a)}, {att2name(a)}", "inputs": {"att": a}})
                            break
                else:
                    for i in (1, 2, 10, 99, 100, 255):
                        for j in (1, 4, 12):
                            a = f"{nm}_{i:02d}_{j:02d}"
                            cases += 1
                            if att2idx(a) != (i, j) or att2name(a) != nm:
                                fails.append({"case": a, "detail": f"{att2idx(a)}", "inputs": {"att": a}})
    return _res("att2idx/att2name over table-generated names", f"all {len(seen)} (name, depth) pairs x indices <= {maxi}",
                cases, fails, exhaustive=False)


# ------------------------------------------------------------------------------------------------- reader
def _frames(rnd):
    from pyubx2 import UBXMessage
    ubx = [UBXMessage("NAV", "NAV-CLOCK", 0, iTOW=rnd.randrange(1 << 20)).serialize(),
           UBXMessage("ACK", "ACK-ACK", 0, clsID=6, msgID=1).serialize(),
           UBXMessage(b"\x0a", b"\x04", 0, payload=b"\x00" * 40).serialize(),
           b"\xb5\x62\x01\x22\x00\x00\x23\x6a"]
    nmea = [b"$GNGLL,5327.04319,N,00214.41396,W,223232.00,A,A*68\r\n", b"$GPTXT,01,01,02,ANTSTATUS=OK*3B\r\n",
            b"$PUBX,41,1,0007,0003,19200,0*25\r\n"]
    rtcm = [bytes.fromhex("d300133ed7d30202980edeef34b4bd62ac0941986f33360b98"), b"\xd3\x00\x00\x47\xea\x4b"]
    return ubx, nmea, rtcm


def _mk_stream(rnd):
    ubx, nmea, rtcm = _frames(rnd)
    parts = []
    for _ in range(rnd.randrange(0, 6)):
        r = rnd.random()
        if r < 0.3:
            f = rnd.choice(ubx)
        elif r < 0.5:
            f = rnd.choice(nmea)
        elif r < 0.65:
            f = rnd.choice(rtcm)
        elif r < 0.8:
            f = bytes(rnd.choice([0xB5, 0x62, 0x24, 0x47, 0xD3, 0x00, 0x0A, 0x01, 0xFF]) for _ in range(rnd.randrange(1, 6)))
        else:
            f = bytearray(rnd.choice(ubx + nmea + rtcm))
            if f:
                f[rnd.randrange(len(f))] ^= 1 << rnd.randrange(8)
            f = bytes(f)
        parts.append(f)
    s = b"".join(parts)
    if rnd.random() < 0.4 and s:
        s = s[:rnd.randrange(len(s) + 1)]
    return s


def spec_vs_reader(ctx, tier, seed):
    """the executable step specification, iterated natively, against the real UBXReader on seeded streams"""
    import io
    import os
    import types
    import contracts.specs as specs
    from pyubx2 import UBXReader
    # run the specification text natively in a private namespace (the module object used by the symbolic
    # executor is left untouched)
    src = open(os.path.join(os.path.dirname(specs.__file__), "reader_spec.py")).read()
    rs = types.SimpleNamespace()
    ns = {"ext_parse": specs.n_ext_parse, "eol": specs.n_eol, "is_nmea_hdr2": specs.n_is_nmea_hdr2}
    exec(compile(src, "reader_spec.py", "exec"), ns)
    rs.__dict__.update(ns)
    rnd = random.Random(seed + 607)
    n = 1500 if tier == "quick" else 40000
    fails = []
    cases = 0
    for i in range(n):
        data = _mk_stream(rnd)
        pf = rnd.randrange(8)
        parsing = rnd.random() < 0.8
        val = rnd.randrange(2)
        mode = rnd.choice([0, 0, 0, 1, 2, 3])
        pbf = rnd.randrange(2)
        q = rnd.choice([0, 1])
        reports = []
        rd = UBXReader(io.BytesIO(data), protfilter=pf, parsing=parsing, validate=val, msgmode=mode, parsebitfield=pbf,
                       quitonerror=q, errorhandler=lambda e: reports.append(e))
        real = []
        try:
            for raw, parsed in rd:
                real.append((raw, None if parsed is None else str(parsed)))
        except Exception as e:  # noqa
            real.append(("EXC", type(e).__name__))
        spec = []
        nrep = 0
        pos = 0
        guard = 0
        while True:
            guard += 1
            kind, pos, raw, parsed, err = rs.spec_step(data, pos, True, pf, parsing, val, mode, pbf, 1)
            if kind == rs.EOF_ or guard > 100000:
                break
            if kind == rs.ITEM:
                spec.append((raw, None if parsed is None else str(parsed)))
            if kind == rs.REJECT and q == 1:
                nrep += 1
        cases += 1
        if real != spec or len(reports) != nrep:
            fails.append({"case": f"stream:{data.hex()}", "detail": f"pf={pf} parsing={parsing} val={val} mode={mode} q={q}: "
                          f"real {len(real)} items / {len(reports)} reports, spec {len(spec)} items / {nrep} reports",
                          "inputs": {"data": data.hex(), "protfilter": pf, "parsing": parsing, "validate": val,
                                     "msgmode": mode, "quitonerror": q}})
    return _res("spec_step iterated == real UBXReader iteration (items and error reports)", f"{n} seeded streams", cases, fails)


def tcp_loopback(ctx, tier, seed):
    """real TCP delivery from a concurrent sender thread with random chunking vs. reading the same bytes from BytesIO"""
    import io
    import socket
    import threading
    import time as _t
    from pyubx2 import UBXReader
    rnd = random.Random(seed + 1010)
    n = 12 if tier == "quick" else 150
    fails = []
    cases = 0
    for i in range(n):
        data = b"".join(_mk_stream(rnd) for _ in range(4))
        want = [(r, str(p)) for r, p in UBXReader(io.BytesIO(data), quitonerror=0)]
        srv = socket.socket()
        srv.bind(("127.0.0.1", 0))
        srv.listen(1)
        port = srv.getsockname()[1]
        chunks = []
        j = 0
        while j < len(data):
            m = rnd.randrange(1, 40)
            chunks.append(data[j:j + m])
            j += m
        close = rnd.random() < 0.5

        def sender():
            c, _ = srv.accept()
            for ch in chunks:
                c.sendall(ch)
                if rnd.random() < 0.2:
                    _t.sleep(0.001)
            if close:
                c.close()
            else:
                _t.sleep(0.5)
                c.close()

        th = threading.Thread(target=sender, daemon=True)
        th.start()
        cl = socket.create_connection(("127.0.0.1", port))
        cl.settimeout(0.25)
        got = [(r, str(p)) for r, p in UBXReader(cl, quitonerror=0, bufsize=rnd.choice([1, 7, 64, 4096]))]
        cl.close()
        th.join(2)
        srv.close()
        cases += 1
        # the socket reader may stop before a trailing partial frame that the file reader drops: compare delivered items
        if got != want[:len(got)] or (len(got) < len(want) and False):
            fails.append({"case": f"tcp:{data.hex()[:80]}", "detail": f"{len(got)} items vs {len(want)}", "inputs": {"data": data.hex()}})
        elif len(got) != len(want):
            fails.append({"case": f"tcp-count:{data.hex()[:80]}", "detail": f"{len(got)} items vs {len(want)}", "inputs": {"data": data.hex()}})
    return _res("real loopback TCP with a concurrent sender thread vs BytesIO", f"{n} seeded streams, random chunking/bufsize/close-or-timeout", cases, fails)


# ------------------------------------------------------------------------------------------------- messages
def _conforming_payloads(defn, rnd, pbf=True):
    """a few payloads laid out according to a definition (counts 0, 1, 3), from the layout oracle's grammar"""
    from contracts.oracle import parse_def, static_size, Leaf, Bitfield, Group
    ents = parse_def(defn)
    outs = []
    for cnt in (0, 1, 3):
        buf = bytearray()
        counts = {}
        ok = True

        def fill(entries, top):
            nonlocal ok
            for e in entries:
                if isinstance(e, Leaf):
                    n = 8 if e.typ == "CH" else e.size
                    b = bytes(rnd.randrange(256) for _ in range(n))
                    if top and e.typ[0] in "UIEL" and e.scale is None:
                        counts[e.name] = (len(buf), n)
                    buf.extend(b)
                elif isinstance(e, Bitfield):
                    start = len(buf)
                    buf.extend(bytes(rnd.randrange(256) for _ in range(e.size)))
                    if top:
                        bo = 0
                        for fn, w in e.flags:
                            counts[fn] = ("bits", start, e.size, bo, w)
                            bo += w
                else:
                    if isinstance(e.count, int):
                        N = e.count
                    elif e.count == "None":
                        N = cnt
                    else:
                        c = counts.get(e.count)
                        N = cnt
                        if c is None:
                            ok = False
                            return
                        if c[0] == "bits":
                            _, st, sz, bo, w = c
                            N = min(cnt, (1 << w) - 1)
                            u = int.from_bytes(buf[st:st + sz], "little")
                            u = (u & ~(((1 << w) - 1) << bo)) | (N << bo)
                            buf[st:st + sz] = u.to_bytes(sz, "little")
                        else:
                            st, sz = c
                            buf[st:st + sz] = N.to_bytes(sz, "little")
                    for _ in range(N):
                        fill(e.entries, False)

        fill(ents, True)
        if ok:
            outs.append(bytes(buf))
    return outs


def str_of_messages(ctx, tier, seed):
    """str() / repr() / identity of every message the parser returns for conforming, truncated and extended payloads of
    every definition never raise (C08; __str__ iterates __dict__, which is not under contract)"""
    from pyubx2 import UBXMessage, UBX_MSGIDS, UBX_PAYLOADS_GET, UBX_PAYLOADS_SET, UBX_PAYLOADS_POLL
    import pyubx2.exceptions as ube
    rnd = random.Random(seed + 808)
    tabs = [UBX_PAYLOADS_GET, UBX_PAYLOADS_SET, UBX_PAYLOADS_POLL]
    fails = []
    cases = 0
    names2key = {}
    for k, v in UBX_MSGIDS.items():
        names2key.setdefault(v, k)
    reps = 1 if tier == "quick" else 6
    for mode, tab in enumerate(tabs):
        for name, defn in tab.items():
            key = names2key.get(name)
            if key is None:
                continue
            for _ in range(reps):
                for pl in _conforming_payloads(defn, rnd):
                    if len(key) == 3 and pl:
                        pl = key[2:3] + pl[1:]
                    for p2 in (pl, pl[:len(pl) // 2], pl + b"\x01\x02", b""):
                        for pbf in (True, False):
                            cases += 1
                            try:
                                m = UBXMessage(key[0:1], key[1:2], mode, payload=p2, parsebitfield=pbf) if p2 else \
                                    UBXMessage(key[0:1], key[1:2], mode)
                            except (ube.UBXMessageError, ube.UBXTypeError):
                                continue
                            except Exception as e:  # noqa
                                fails.append({"case": f"ctor:{name}:{mode}:{p2.hex()[:60]}", "detail": f"constructor raised {type(e).__name__}: {e}"[:200],
                                              "inputs": {"name": name, "mode": mode, "payload": p2.hex()}})
                                continue
                            try:
                                str(m), repr(m), m.identity, m.length, m.payload, m.msgmode, m.serialize()
                            except Exception as e:  # noqa
                                fails.append({"case": f"str:{name}:{mode}:{pbf}:{p2.hex()[:60]}", "detail": f"{type(e).__name__}: {e}"[:200],
                                              "inputs": {"name": name, "mode": mode, "payload": p2.hex(), "pbf": pbf}})
    return _res("str/repr/identity/length/payload/msgmode/serialize of parsed messages of every definition",
                f"every (message, mode) x conforming payloads with counts 0,1,3 x (full, half, extended, empty) x 2 views x {reps}",
                cases, fails)


def oracle_vs_parser(ctx, tier, seed):
    """the layout oracle's native side against the real parser on conforming payloads (validates the oracle)"""
    from pyubx2 import UBXMessage, UBX_MSGIDS, UBX_PAYLOADS_GET, UBX_PAYLOADS_SET, UBX_PAYLOADS_POLL
    from contracts.oracle import native_expected
    rnd = random.Random(seed + 909)
    tabs = [UBX_PAYLOADS_GET, UBX_PAYLOADS_SET, UBX_PAYLOADS_POLL]
    modes = ["GET", "SET", "POLL"]
    fails = []
    cases = 0
    names2key = {}
    for k, v in UBX_MSGIDS.items():
        names2key.setdefault(v, k)
    for mode, tab in enumerate(tabs):
        for name, defn in tab.items():
            key = names2key.get(name)
            if key is None or name in ("CFG-VALGET", "CFG-VALSET"):
                continue
            for pl in _conforming_payloads(defn, rnd):
                if len(key) == 3 and pl:
                    pl = key[2:3] + pl[1:]
                for pbf in (True, False):
                    try:
                        m = UBXMessage(key[0:1], key[1:2], mode, payload=pl, parsebitfield=pbf) if pl else None
                    except Exception:  # noqa
                        continue
                    if m is None:
                        continue
                    d = m._get_dict(payload=pl)
                    want = native_expected(d, pl, pbf, (modes[mode], key[0:2]))
                    if want is None:
                        continue
                    cases += 1
                    got = {k: v for k, v in m.__dict__.items() if not k.startswith("_")}
                    if got != want and not any(isinstance(v, float) and v != v for v in got.values()):
                        diff = [k for k in set(got) | set(want) if got.get(k) != want.get(k)][:5]
                        fails.append({"case": f"{name}:{mode}:{pbf}:{pl.hex()[:40]}", "detail": f"differs at {diff}",
                                      "inputs": {"name": name, "mode": mode, "payload": pl.hex(), "pbf": pbf}})
    return _res("layout oracle (native side) == real parser on conforming payloads", "every definition x counts 0,1,3 x 2 views", cases, fails)


def dependency_parsers(ctx, tier, seed):
    """T-NMEA / T-RTCM (assumed contracts): the dependency parsers behind the reader raise only their own exception
    classes on mutated sentences / frames.  Bounded native fuzz, because their code is not under contract."""
    import io
    from pyubx2 import UBXReader
    rnd = random.Random(seed + 4242)
    ubx, nmea, rtcm = _frames(rnd)
    n = 4000 if tier == "quick" else 120000
    fails = []
    cases = 0
    for i in range(n):
        base = bytearray(rnd.choice(nmea + rtcm))
        for _ in range(rnd.randrange(1, 4)):
            r = rnd.random()
            if r < 0.5 and base:
                base[rnd.randrange(len(base))] = rnd.randrange(256)
            elif r < 0.7 and base:
                del base[rnd.randrange(len(base))]
            else:
                base.insert(rnd.randrange(len(base) + 1), rnd.choice(b",*$\r\n0123456789ABCDEFGPX\xd3\x00"))
        data = bytes(base)
        cases += 1
        try:
            for _ in UBXReader(io.BytesIO(data), quitonerror=rnd.choice([0, 1]), errorhandler=lambda e: None,
                               validate=rnd.randrange(2)):
                pass
        except Exception as e:  # noqa
            fails.append({"case": f"dep:{data.hex()}", "detail": f"{type(e).__name__}: {e}"[:200], "inputs": {"data": data.hex()}})
    # recorded witnesses of the known dependency defect (pynmeagps 1.1.7: talker/id split of '$PUBX*...' with VALNONE)
    for name, data in (("PUBX-star", b"$PUBX*,00,1\r\n"),):
        cases += 1
        try:
            list(UBXReader(io.BytesIO(data), quitonerror=0, validate=0))
        except Exception as e:  # noqa
            fails.insert(0, {"case": f"known:{name}", "detail": f"{type(e).__name__} escapes UBXReader with ERR_IGNORE", "inputs": {"data": data.hex()}})
    fails = [f for f in fails if f["case"].startswith("known:") or b"$PUBX*" not in bytes.fromhex(f["inputs"]["data"])]
    return _res("dependency parsers behind the reader: only their own exception classes escape", f"{n} mutated NMEA/RTCM3 frames", cases, fails)


def scaled_roundtrip(ctx, tier, seed):
    """C03, scaled fields: for every distinct (integer type, scale) pair of the tables, feeding the attribute value the
    parser reports (round(raw * scale, 12)) back through the constructor's int(value / scale) must give raw.
    Exhaustive over all raw values for 1- and 2-byte types; boundary + seeded values for wider types."""
    from pyubx2 import UBX_PAYLOADS_GET, UBX_PAYLOADS_SET, UBX_PAYLOADS_POLL
    from contracts.oracle import parse_def, Leaf, Group
    rnd = random.Random(seed + 303)
    pairs = {}

    def walk(ents, where):
        for e in ents:
            if isinstance(e, Leaf) and e.scale is not None and e.scale != 1:
                pairs.setdefault((e.typ, e.scale), where + e.name)
            elif isinstance(e, Group):
                walk(e.entries, where)

    for mode, t in (("GET", UBX_PAYLOADS_GET), ("SET", UBX_PAYLOADS_SET), ("POLL", UBX_PAYLOADS_POLL)):
        for nm, d in t.items():
            walk(parse_def(d), f"{mode} {nm}.")
    fails = []
    cases = 0
    nsample = 20000 if tier == "quick" else 400000
    for (typ, scale), where in sorted(pairs.items(), key=lambda x: (x[0][0], repr(x[0][1]))):
        n = int(typ[1:4])
        lo, hi = (-(1 << (8 * n - 1)), 1 << (8 * n - 1)) if typ[0] == "I" else (0, 1 << (8 * n))
        if n <= 2:
            raws = range(lo, hi)
        else:
            # deterministic part first (independent of the seed): boundaries and the 2^17 values around zero
            raws = [lo, lo + 1, hi - 2, hi - 1] + list(range(0, 1 << 16)) + list(range(-(1 << 16), 0)) + \
                   [rnd.randrange(lo, hi) for _ in range(nsample)]
            raws = [r for r in raws if lo <= r < hi]
        bad = None
        for raw in raws:
            cases += 1
            val = round(raw * scale, 12)
            try:
                back = int(val / scale)
            except Exception:  # noqa
                back = None
            if back != raw:
                bad = raw
                break
        if bad is not None:
            fails.append({"case": f"{typ}x{scale!r}", "detail": f"raw {bad} -> {round(bad * scale, 12)!r} -> {int(round(bad * scale, 12) / scale)} (first use: {where})",
                          "inputs": {"type": typ, "scale": repr(scale), "raw": bad}})
    return _res("scaled attribute value -> raw round trip per (type, scale) pair", f"{len(pairs)} pairs; exhaustive for <= 2-byte types, "
                f"{nsample} seeded + boundary values for wider types", cases, fails, exhaustive=False)


def kw_end_to_end(ctx, tier, seed):
    """build from random in-range keyword values -> serialize -> parse -> same attribute values (unscaled fields)"""
    from pyubx2 import UBXMessage, UBXReader, UBX_MSGIDS, UBX_PAYLOADS_GET, UBX_PAYLOADS_SET, UBX_PAYLOADS_POLL
    from contracts.oracle import parse_def, Leaf, Bitfield, Group
    import pyubx2.exceptions as ube
    rnd = random.Random(seed + 404)
    tabs = [UBX_PAYLOADS_GET, UBX_PAYLOADS_SET, UBX_PAYLOADS_POLL]
    names2key = {}
    for k, v in UBX_MSGIDS.items():
        names2key.setdefault(v, k)
    fails = []
    cases = 0
    reps = 2 if tier == "quick" else 30
    for mode, tab in enumerate(tabs):
        for name, defn in tab.items():
            key = names2key.get(name)
            if key is None or name in ("CFG-VALGET", "CFG-VALSET"):
                continue
            ents = parse_def(defn)
            if any(isinstance(e, Group) and not isinstance(e.count, int) for e in ents):
                continue  # counted groups are covered symbolically
            for _ in range(reps):
                kw = {}
                for e in ents:
                    if isinstance(e, Leaf) and e.scale is None and e.typ != "CH" and rnd.random() < 0.7 \
                            and not e.name.startswith("reserved"):
                        n = e.size
                        if e.typ[0] in "EUL":
                            kw[e.name] = rnd.randrange(1 << (8 * n))
                        elif e.typ[0] == "I":
                            kw[e.name] = rnd.randrange(-(1 << (8 * n - 1)), 1 << (8 * n - 1))
                        elif e.typ[0] in "XC":
                            kw[e.name] = bytes(rnd.randrange(256) for _ in range(n))
                    elif isinstance(e, Bitfield):
                        for fn, w in e.flags:
                            if not fn.startswith("reserved") and rnd.random() < 0.7:
                                kw[fn] = rnd.randrange(1 << w)
                if len(key) == 3:
                    kw["type"] = key[2]
                if not kw:
                    continue
                cases += 1
                try:
                    m = UBXMessage(key[0:1], key[1:2], mode, **kw)
                    p = UBXReader.parse(m.serialize(), msgmode=mode)
                except (ube.UBXMessageError, ube.UBXTypeError) as e:
                    if "'length'" in str(e) or name == "FOO-BAR" or "must include" in str(e) or name == "MGA-ANO":
                        continue  # recorded findings F-16a/c/e; payload-only messages
                    fails.append({"case": f"{name}:{mode}", "detail": f"{type(e).__name__}: {e}"[:200], "inputs": {"kwargs": repr(kw)[:300]}})
                    continue
                bad = [k2 for k2, v in kw.items() if getattr(p, k2, v) != v]
                if bad and p.identity == m.identity:
                    fails.append({"case": f"{name}:{mode}:{bad[0]}", "detail": f"{bad[0]}: built {kw[bad[0]]!r}, parsed {getattr(p, bad[0], None)!r}",
                                  "inputs": {"kwargs": repr(kw)[:300]}})
    return _res("keyword build -> parse returns the supplied values (unscaled fields, fixed-size definitions)", f"{reps} random keyword sets per definition", cases, fails)


def bad_values(ctx, tier, seed):
    """C15 natively: for every definition and attribute, a zoo of ill-typed / out-of-range values is either refused with
    UBXMessageError / UBXTypeError or yields a payload of exactly the definition's static length"""
    from pyubx2 import UBXMessage, UBX_MSGIDS, UBX_PAYLOADS_GET, UBX_PAYLOADS_SET, UBX_PAYLOADS_POLL
    from contracts.oracle import parse_def, static_size, Leaf, Bitfield, Group
    import pyubx2.exceptions as ube
    rnd = random.Random(seed + 1515)
    zoo = [-1, 1 << 70, 256, 65536, 1.5, float("nan"), float("inf"), "x", "", b"", b"\x00" * 3, b"\x00" * 300, [1], [0] * 300,
           None, True, (1, 2), {"a": 1}]
    tabs = [UBX_PAYLOADS_GET, UBX_PAYLOADS_SET, UBX_PAYLOADS_POLL]
    names2key = {}
    for k, v in UBX_MSGIDS.items():
        names2key.setdefault(v, k)
    fails = []
    cases = 0
    per = 3 if tier == "quick" else 12
    for mode, tab in enumerate(tabs):
        for name, defn in tab.items():
            key = names2key.get(name)
            if key is None or name in ("CFG-VALGET", "CFG-VALSET", "FOO-BAR"):
                continue
            ents = parse_def(defn)
            if any(isinstance(e, Group) and not isinstance(e.count, int) for e in ents):
                continue
            want_len = static_size(ents)
            attrs = []
            for e in ents:
                if isinstance(e, Leaf) and not e.name.startswith("reserved"):
                    attrs.append((e.name, e.typ))
                elif isinstance(e, Bitfield):
                    attrs += [(fn, "flag") for fn, _ in e.flags if not fn.startswith("reserved")]
            for (an, typ) in rnd.sample(attrs, min(per, len(attrs))):
                for v in rnd.sample(zoo, 6):
                    kw = {an: v}
                    if len(key) == 3 and an != "type":
                        kw["type"] = key[2]
                    cases += 1
                    try:
                        m = UBXMessage(key[0:1], key[1:2], mode, **kw)
                    except (ube.UBXMessageError, ube.UBXTypeError):
                        continue
                    except Exception as e:  # noqa
                        fails.append({"case": f"{name}:{mode}:{an}={v!r}"[:80], "detail": f"escapes as {type(e).__name__}: {e}"[:160],
                                      "inputs": {"name": name, "mode": mode, "kwargs": repr(kw)[:200]}})
                        continue
                    if want_len is not None and typ[0] not in "XC" and m.identity == name and len(m.payload or b"") != want_len:
                        fails.append({"case": f"{name}:{mode}:{an}={v!r}:length"[:80],
                                      "detail": f"payload has {len(m.payload)} bytes, definition implies {want_len}",
                                      "inputs": {"name": name, "mode": mode, "kwargs": repr(kw)[:200]}})
    return _res("ill-typed / out-of-range keyword values are refused or encoded at the right length (X/C length excepted: F-15c)",
                f"every fixed-size definition x {per} attributes x 6 zoo values", cases, fails)


def config_roundtrip(ctx, tier, seed):
    """config_set with random keys/values of every database type -> parse the CFG-VALSET -> one attribute per key, equal
    to its value; config_poll / config_del payloads carry the key IDs in order"""
    from pyubx2 import UBXMessage, UBXReader, UBX_CONFIG_DATABASE
    rnd = random.Random(seed + 1414)
    names = list(UBX_CONFIG_DATABASE)
    fails = []
    cases = 0
    n = 300 if tier == "quick" else 6000
    # (a) CFG-VALGET responses (GET mode) with documented and undocumented key IDs, any item count: every item becomes
    #     one attribute, named by the documented lookup (CFG_0x<id> for undocumented IDs), holding the decoded value
    from contracts.specs import n_cfgkey2name_spec
    for _ in range(max(40, n // 4)):
        k = rnd.choice([0, 1, 2, 5, 33, 63, 64, rnd.randrange(0, 65)])
        body, want = b"", []
        seen_ids = set()
        for _j in range(k):
            if rnd.random() < 0.7:
                nm = rnd.choice(names)
                kid, typ = UBX_CONFIG_DATABASE[nm]
            else:
                kid = (rnd.randrange(1, 6) << 28) | rnd.randrange(1 << 24)
                try:
                    nm, typ = n_cfgkey2name_spec(kid)
                except KeyError:
                    continue
            if kid in seen_ids:
                continue
            seen_ids.add(kid)
            nm, typ = n_cfgkey2name_spec(kid)
            sz = int(typ[1:4])
            vb = bytes(rnd.randrange(256) for _ in range(sz))
            body += kid.to_bytes(4, "little") + vb
            if typ[0] in "ULE":
                v = int.from_bytes(vb, "little")
            elif typ[0] == "I":
                v = int.from_bytes(vb, "little", signed=True)
            elif typ[0] == "X":
                v = vb
            else:
                import struct as _st
                v = _st.unpack("<f" if sz == 4 else "<d", vb)[0]
            want.append((nm, v))
        payload = bytes([1, rnd.randrange(8), 0, 0]) + body
        cases += 1
        try:
            p = UBXMessage(b"\x06", b"\x8b", 0, payload=payload)
            got = [(a, getattr(p, a)) for a in p.__dict__ if a.startswith("CFG_")]
            same = len(got) == len(want) and all(a == b and (x == y or (x != x and y != y)) for (a, x), (b, y) in zip(got, want))
            if not same:
                fails.append({"case": f"cfg-valget:{len(want)}items", "detail": f"parsed {got[:3]!r}..., expected {want[:3]!r}..."[:300],
                              "inputs": {"payload": payload.hex()[:400]}})
        except Exception as e:  # noqa
            fails.append({"case": f"cfg-valget-exc:{type(e).__name__}", "detail": str(e)[:200], "inputs": {"payload": payload.hex()[:400]}})
    # (b) the builders accept every item count up to 64 and refuse 65
    for cnt in (0, 1, 32, 33, 40, 63, 64, 65):
        ks = names[:cnt]
        for fn, args in (("config_poll", (0, 0, ks)), ("config_del", (1, 0, ks)),
                         ("config_set", (1, 0, [(nm, (b"\x00" * int(UBX_CONFIG_DATABASE[nm][1][1:4]) if UBX_CONFIG_DATABASE[nm][1][0] == "X"
                                                      else (0.0 if UBX_CONFIG_DATABASE[nm][1][0] == "R" else 0))) for nm in ks]))):
            cases += 1
            try:
                getattr(UBXMessage, fn)(*args)
                ok = cnt <= 64
            except Exception as e:  # noqa
                ok = cnt > 64 and type(e).__name__ == "UBXMessageError"
            if not ok:
                fails.append({"case": f"cfg-count:{fn}:{cnt}", "detail": f"{fn} with {cnt} valid items " + ("refused" if cnt <= 64 else "accepted / foreign exception"),
                              "inputs": {"count": cnt}})
    for _ in range(n):
        k = rnd.randrange(0, 9)
        items = []
        for nm in rnd.sample(names, k):
            kid, typ = UBX_CONFIG_DATABASE[nm]
            sz = int(typ[1:4])
            if typ[0] in "ULE":
                v = rnd.randrange(1 << (8 * sz))
            elif typ[0] == "I":
                v = rnd.randrange(-(1 << (8 * sz - 1)), 1 << (8 * sz - 1))
            elif typ[0] == "X":
                v = bytes(rnd.randrange(256) for _ in range(sz))
            else:
                v = float(rnd.randrange(-1000, 1000)) / 8
            items.append((nm if rnd.random() < 0.5 else kid, v, nm))
        cases += 1
        try:
            m = UBXMessage.config_set(rnd.randrange(8), rnd.randrange(4), [(a, b) for a, b, _ in items])
            p = UBXReader.parse(m.serialize(), msgmode=1)
            for a, v, nm in items:
                got = getattr(p, nm, None)
                first = [x for x, (i, _) in UBX_CONFIG_DATABASE.items() if i == UBX_CONFIG_DATABASE[nm][0]][0]
                got = getattr(p, first, None)
                if got != v:
                    fails.append({"case": f"cfg:{nm}", "detail": f"set {v!r}, parsed {got!r}", "inputs": {"key": nm, "value": repr(v)}})
                    break
            ids = [UBX_CONFIG_DATABASE[nm][0] for _, _, nm in items]
            q = UBXMessage.config_poll(0, 0, [a for a, _, _ in items])
            want = b"\x00\x00\x00\x00" + b"".join(i.to_bytes(4, "little") for i in ids)
            if q.payload != want:
                fails.append({"case": "cfg-poll", "detail": f"{q.payload.hex()} != {want.hex()}", "inputs": {"ids": ids}})
        except Exception as e:  # noqa
            fails.append({"case": f"cfg-exc:{type(e).__name__}", "detail": str(e)[:200], "inputs": {"items": repr(items)[:300]}})
    return _res("config_set -> parse gives one attribute per key with its value; config_poll payload; CFG-VALGET responses "
                "with documented and undocumented IDs parse to one attribute per item; builders accept 0..64 items and refuse 65",
                f"{n} random item lists (0..8 items) + {max(40, n // 4)} VALGET payloads (0..64 items) + 8 boundary counts x 3 builders", cases, fails)
