#!/bin/bash
# convenience: run every registered check once (tier from $1, default quick) and print one line per property
cd "$(dirname "$0")"
tier=${1:-quick}
for p in $(python3 -c "import json;print(' '.join(c['property_id'] for c in json.load(open('MANIFEST.json'))['checks']))"); do
  s=$(date +%s)
  out=$(./vcheck $p $tier 2>&1); rc=$?
  echo "$p exit=$rc $(( $(date +%s) - s ))s :: $(echo "$out" | grep '^\[pvc\]' | cut -c1-230)"
  echo "$out" | grep -E "^(VIOLATION|ENGINE-ERROR|UNDECIDED)" | head -5
done
