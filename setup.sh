#!/bin/bash
# Build /verif/.venv offline: CPython 3.12 venv from the wheelhouse (z3-solver, cvc5, jsonschema)
# plus a .pth that makes /venv's site-packages (the repo's editable install and its
# dependencies pynmeagps / pyrtcm) importable.
set -e
cd "$(dirname "$0")"
PY312=/root/.pyenv/versions/3.12.1/bin/python
[ -x "$PY312" ] || PY312=/venv/bin/python
if [ ! -x .venv/bin/python ] || ! .venv/bin/python -c "import z3, jsonschema, pyubx2" 2>/dev/null; then
  rm -rf .venv
  "$PY312" -m venv .venv
  PIP_NO_INDEX=1 .venv/bin/pip install -q --no-index --find-links /opt/veriftools/wheels z3-solver cvc5 jsonschema >/dev/null
  SP=$(.venv/bin/python -c "import site;print(site.getsitepackages()[0])")
  echo "import site; site.addsitedir('/venv/lib/python3.12/site-packages')" > "$SP/zz_repo_overlay.pth"
fi
.venv/bin/python -c "import z3, jsonschema, pyubx2, pynmeagps, pyrtcm; assert pyubx2.__file__.startswith('/repo/src/'), pyubx2.__file__; print('setup ok', z3.get_version_string())"
