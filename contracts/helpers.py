"""Contracts for pyubx2.ubxhelpers (DESIGN.md 4.1).

Type-indexed helpers (val2bytes, bytes2val, nomval) get one contract per attribute type constant found
in the working tree's ubxtypes_core (a *family*: the call site's concrete `att` selects the member)."""
import re

from pvc.contracts import Contract, Loop

H = "pyubx2.ubxhelpers."

INT_LETTERS = ("E", "I", "L", "U")


def type_constants():
    """every attribute type constant declared in ubxtypes_core of the working tree"""
    from pvc import extract
    mod, _, _, _ = extract.load_module("pyubx2.ubxtypes_core")
    out = {}
    for k, v in vars(mod).items():
        if isinstance(v, str) and re.fullmatch(r"[A-Z]\d{3}|CH", v) and k.isupper():
            out[v] = k
    return dict(sorted(out.items()))


def tsize(T):
    return -1 if T == "CH" else int(T[1:4])


def int_range(T):
    n = tsize(T)
    if T[0] == "I":
        return -(1 << (8 * n - 1)), 1 << (8 * n - 1)
    return 0, 1 << (8 * n)


def c_val2bytes(T):
    """val2bytes(val, T) for values of the type's own Python kind (C18); the any-scalar variant is in C15"""
    n = tsize(T)
    L = T[0]
    q = H + "val2bytes"
    if T == "CH":
        return Contract(q, params={"val": any_text, "att": ("const", T)}, returns="bytes",
                        ensures=[("encoded-text", "result == text_encode(val)")], raises={}, modifies=[],
                        notes="CH: text, encoded with the library's text codec")
    if L in INT_LETTERS:
        lo, hi = int_range(T)
        dec = "s_le" if L == "I" else "u_le"
        return Contract(
            q, params={"val": "int", "att": ("const", T)}, returns=("bytesn", n),
            ensures=[("width", f"len(result) == {n}"), ("value", f"{dec}(result) == val")],
            raises={"OverflowError": f"not ({lo} <= val < {hi})"},
            raises_iff={"OverflowError": f"not ({lo} <= val < {hi})"},
            modifies=[])
    if L == "X" or L == "C":
        return Contract(
            q, params={"val": "bytes", "att": ("const", T)}, returns="bytes",
            ensures=[("verbatim", "result == val")], raises={}, modifies=[],
            notes="no length check in the code (finding F-15c); C18 quantifies over len(val) == size only")
    if L == "R":
        return Contract(
            q, params={"val": "float", "att": ("const", T)}, returns=("bytesn", n),
            ensures=[("ieee-bytes", f"result == packf(val, {n})"), ("width", f"len(result) == {n}")] +
                    ([("ieee", "unpackf(result) == val")] if n == 8 else []),
            raises={"OverflowError": "not fits_float32(val)"} if n == 4 else {},
            raises_iff={"OverflowError": "not fits_float32(val)"} if n == 4 else {}, modifies=[])
    if L == "A":
        return Contract(
            q, params={"val": ("bytelist", n), "att": ("const", T)}, returns="bytes",
            ensures=[("width", f"len(result) == {n}"), ("cells", "result == bytes(val)")],
            raises={}, modifies=[],
            loops={})
    return None


def list_of_text_kind():
    return "bytes"


def any_text(ex, name):
    from pvc.values import SStr, Opaque
    return SStr((Opaque("any-text"),))


any_text.native = lambda v: v if isinstance(v, str) else "caf\u00e9 \u20ac x"
any_text.native_candidates = ["", "x", "caf\u00e9", "\u20ac\u00ff", "a\x00"]


def c_bytes2val(T):
    n = tsize(T)
    L = T[0]
    q = H + "bytes2val"
    if T == "CH":
        return Contract(q, params={"valb": "bytes", "att": ("const", T)}, returns="str",
                        ensures=[("decoded-text", "result == text_decode(valb)")], raises={}, modifies=[])
    if L in INT_LETTERS:
        dec = "s_le" if L == "I" else "u_le"
        return Contract(q, params={"valb": "bytes", "att": ("const", T)}, returns="int",
                        requires=[("atmost", f"len(valb) <= {n}")] if n <= 64 else [],
                        ensures=[("value", f"result == {dec}(valb)")], raises={}, modifies=[])
    if L in ("X", "C"):
        return Contract(q, params={"valb": "bytes", "att": ("const", T)}, returns="bytes",
                        ensures=[("verbatim", "result == valb")], raises={}, modifies=[])
    if L == "R":
        return Contract(q, params={"valb": "bytes", "att": ("const", T)}, returns="float",
                        ensures=[("ieee", "result == unpackf(valb)")],
                        raises={"error": f"len(valb) != {n}"}, raises_iff={"error": f"len(valb) != {n}"},
                        modifies=[])
    if L == "A":
        return Contract(q, params={"valb": "bytes", "att": ("const", T)}, returns="list",
                        ensures=[("cells", f"result == bytes_to_list(valb, {n})")],
                        raises={"IndexError": f"len(valb) < {n}"}, raises_iff={"IndexError": f"len(valb) < {n}"},
                        modifies=[])
    return None


def c_nomval(T):
    n = tsize(T)
    L = T[0]
    q = H + "nomval"
    if T == "CH":
        e = "result == ''"
    elif L in ("X", "C"):
        e = f"result == bytes({n})"
    elif L == "R":
        e = "result == 0.0"
    elif L in INT_LETTERS:
        e = "result == 0"
    elif L == "A":
        e = f"result == [0] * {n}"
    else:
        return None
    ens = [("nominal", e)]
    if L == "R":
        ens.append(("positive-zero", "str(result) == '0.0'"))  # -0.0 == 0.0, but it encodes with the sign bit set
    return Contract(q, params={"att": ("const", T)}, ensures=ens, raises={}, modifies=[])


def install(reg):
    reg.force_inline.update({H + "atttyp", H + "attsiz"})
    reg.add(Contract(
        H + "calc_checksum",
        params={"content": "bytes"},
        ensures=[("fletcher", "result == fletcher8(content)")],
        raises={}, modifies=[], returns="bytes",
        loops={1: Loop(index="k", inv=[("sumA", "check_a == fsumA(content, k) % 256"),
                                       ("sumB", "check_b == fsumB(content, k) % 256")])},
    ))
    reg.add(Contract(
        H + "isvalid_checksum",
        params={"message": "bytes"},
        ensures=[("agrees", "iff(result, message[len(message) - 2:len(message)] == "
                            "fletcher8(message[2:len(message) - 2]))")],
        raises={}, modifies=[], returns="bool",
    ))
    reg.add(Contract(
        H + "getinputmode",
        params={"data": "bytes"},
        ensures=[("heuristic",
                  "result == (2 if (len(data) == 8 or data[2:4] == b'\\x06\\x8b' or "
                  "((data[2:4] == b'\\x06\\x01' or data[2:4] == b'\\x06\\x02' or data[2:4] == b'\\x06\\x03' "
                  "or data[2:4] == b'\\x06\\x31') and len(data) <= 10)) else 1)")],
        raises={}, modifies=[], returns="int",
    ))
    reg.add(Contract(
        H + "protocol",
        params={"raw": "bytes"},
        requires=[("hdr", "len(raw) >= 2")],
        ensures=[("classify",
                  "result == (2 if raw[0:2] == b'\\xb5\\x62' else (1 if is_nmea_hdr(raw[0:2]) else "
                  "(4 if (raw[0] == 0xd3 and raw[1] < 4) else 0)))")],
        raises={}, modifies=[], returns="int",
    ))
    reg.add(Contract(
        H + "msgclass2bytes",
        params={"msgclass": "int", "msgid": "int"},
        ensures=[("cls", "result[0] == bytes((msgclass,))"), ("id", "result[1] == bytes((msgid,))")],
        raises={"OverflowError": "not (0 <= msgclass < 256 and 0 <= msgid < 256)"},
        raises_iff={"OverflowError": "not (0 <= msgclass < 256 and 0 <= msgid < 256)"},
        modifies=[],
    ))
    gb = Contract(
        H + "get_bits",
        params={"bitfield": "bytes", "bitmask": "int"},
        requires=[("nonempty", "1 <= len(bitfield) <= 8"), ("mask", "0 < bitmask < 2 ** 64")],
        # the shift amount t is characterised, not computed: bitmask = odd * 2**t  (witness: the loop counter)
        ensures=[("shift-is-trailing-zero-count", "0 <= final_i <= 64 and bitmask % 2 ** final_i == 0 and "
                                                  "(bitmask // 2 ** final_i) % 2 == 1"),
                 ("masked-shifted", "result == (u_be(bitfield) >> final_i) & (bitmask >> final_i)")],
        raises={}, modifies=[], returns="int",
        loops={1: Loop(inv=[("pos", "bitmask > 0"), ("idx", "0 <= i <= 64"),
                            ("scaled", "bitmask * 2 ** i == old_bitmask")],
                       decreases="bitmask")},
    )
    # run-time evaluation (sampling, replay) needs a value for the witness: the number of trailing zero bits
    gb.native_witness = {"final_i": "tzc(bitmask)"}
    reg.add(gb)
    reg.add(Contract(
        H + "cfgkey2name",
        params={"keyid": "int"},
        requires=[("u32", "0 <= keyid < 2 ** 32")],
        ensures=[("lookup", "result == cfgkey2name_spec(keyid)")],
        raises={"UBXMessageError": "cfg_sizecode_invalid(keyid)"},
        raises_iff={"UBXMessageError": "cfg_sizecode_invalid(keyid)"},
        modifies=[]))
    reg.add(Contract(
        H + "cfgname2key",
        params={"name": ("const", "")},
        ensures=[("lookup", "result == cfgname2key_spec(name)")],
        raises={"UBXMessageError": "not cfgname_known(name)"},
        raises_iff={"UBXMessageError": "not cfgname_known(name)"},
        modifies=[]))
    fam_v2b, fam_b2v, fam_nom = {}, {}, {}
    for T in type_constants():
        for fam, mk in ((fam_v2b, c_val2bytes), (fam_b2v, c_bytes2val), (fam_nom, c_nomval)):
            c = mk(T)
            if c is not None:
                fam[T] = c
    reg.family(H + "val2bytes", "att", fam_v2b)
    reg.family(H + "bytes2val", "att", fam_b2v)
    reg.family(H + "nomval", "att", fam_nom)


# --------------------------------------------------------------------------------------------------------------
# C15: val2bytes for *any* Python scalar (not only values of the field's own kind)
# --------------------------------------------------------------------------------------------------------------
TRANSLATED = ("TypeError", "OverflowError", "ValueError", "AttributeError", "IndexError", "error", "UBXTypeError")
ANY_KINDS = ("int", "float", "str", "bytes", "list-short", "list-exact", "list-long", "none", "tuple")


def any_value(kind, T):
    """input builder for one Python kind of value"""
    n = tsize(T)

    def build(ex, name):
        import z3
        from pvc.values import SInt, SFloat, SStr, SBytes, Opaque, Base, FSort, mk_bool
        st = ex.st
        if kind == "int":
            e = z3.Int(name)
            st.inputs[name] = ("int", e)
            return SInt(e)
        if kind == "float":
            return SFloat(z3.Const(name, FSort))
        if kind == "str":
            return SStr((Opaque("any-text"),))
        if kind == "bytes":
            b, ln = Base(name), z3.Int(name + "_len")
            st.assume(mk_bool(ln >= 0))
            st.inputs[name] = ("bytes", b, ln)
            return SBytes.view(b, 0, ln)
        if kind.startswith("list"):
            m = {"list-short": max(n - 1, 0), "list-exact": max(n, 0), "list-long": max(n, 0) + 1}[kind]
            items, descr = [], []
            for i in range(min(m, 300)):
                e = z3.Int(f"{name}_{i}")
                items.append(SInt(e))
                descr.append(("int", e))
            st.inputs[name] = ("list", descr)
            return st.alloc("list", None, items=items)
        if kind == "none":
            return None
        if kind == "tuple":
            return (1, 2)
        raise ValueError(kind)

    def native(v):
        """concrete value of this kind for the native replay (the model's value where it has one)"""
        if kind == "int":
            return v if isinstance(v, int) else 0
        if kind == "float":
            return 1e300
        if kind == "str":
            return "x" * (n + 1 if n > 0 else 1)
        if kind == "bytes":
            return v if isinstance(v, bytes) else b"\x00" * (n + 1)
        if kind.startswith("list"):
            return list(v) if isinstance(v, (list, tuple)) else [0] * ({"list-short": max(n - 1, 0), "list-exact": n, "list-long": n + 1}[kind])
        if kind == "none":
            return None
        return (1, 2)

    build.native = native
    return build


def c15_val2bytes(arg):
    """(T, kind): either one of the exceptions the constructor translates, or exactly size(T) bytes that decode to val"""
    T, kind = arg
    n = tsize(T)
    L = T[0]
    post = [("width", f"len(result) == {n}")] if T != "CH" else []
    if L in INT_LETTERS:
        post.append(("value", f"{'s_le' if L == 'I' else 'u_le'}(result) == val"))
    elif L in ("X", "C") and kind == "bytes":
        post.append(("verbatim", "result == val"))
    elif L == "A":
        post.append(("cells", f"bytes_to_list(result, {n}) == val"))
    if kind == "none":
        post = [("none-is-refused", "False")]  # no type has an encoding for None
    return Contract(H + "val2bytes", params={"val": any_value(kind, T), "att": ("const", T)}, returns="bytes",
                    ensures=post, raises={k: None for k in TRANSLATED}, modifies=[])
