"""
Specification functions: each has a symbolic model (used inside VCs) and an independent native
definition (used for replay and for ground tests of the model).  They are written from the
protocol description / property statements, not from the code under verification.
"""
from __future__ import annotations

import z3

from pvc.values import (SBytes, SInt, SBool, SStr, Sym, to_rope, zint, zbool, mk_int, mk_bool, fresh_name, IntS,
                        Unsupported, is_byteslike)

# ----------------------------------------------------------------------------------------------
# native (executable) definitions
# ----------------------------------------------------------------------------------------------


def n_fsumA(b: bytes, k: int) -> int:
    """S(k) = sum of the first k bytes (unreduced)"""
    return sum(b[:k])


def n_fsumB(b: bytes, k: int) -> int:
    """T(k) = sum_{i<k} S(i+1) (unreduced)"""
    return sum(sum(b[: i + 1]) for i in range(k))


def n_fletcher8(b: bytes) -> bytes:
    """8-bit Fletcher over b: (sum mod 256, sum of running sums mod 256)"""
    return bytes((n_fsumA(b, len(b)) % 256, n_fsumB(b, len(b)) % 256))


def n_u_le(b: bytes) -> int:
    return sum(x << (8 * i) for i, x in enumerate(b))


def n_s_le(b: bytes) -> int:
    u = n_u_le(b)
    n = len(b)
    if n and b[-1] >= 128:
        u -= 1 << (8 * n)
    return u


def n_u_be(b: bytes) -> int:
    return n_u_le(bytes(reversed(b)))


def n_wf_frame(m: bytes) -> bool:
    """well-formed UBX frame: sync chars, length field equal to actual payload length, Fletcher checksum"""
    return (len(m) >= 8 and m[0:2] == b"\xb5\x62" and n_u_le(m[4:6]) == len(m) - 8
            and m[len(m) - 2:] == n_fletcher8(m[2:len(m) - 2]))


def n_implies(a, b):
    return (not a) or bool(b)


def n_iff(a, b):
    return bool(a) == bool(b)


# ----------------------------------------------------------------------------------------------
# symbolic models
# ----------------------------------------------------------------------------------------------
def _rope_fn(ex, prefix, rope):
    """per-path table (the entries keep the rope alive, so structural keys stay unique)"""
    tab = ex.st.ghost.setdefault("rope_funcs", {})
    key = (prefix, rope.key())
    if key not in tab:
        tab[key] = (z3.Function(f"{prefix}!{len(tab)}", IntS, IntS), rope)
    return tab[key][0]


def s_fsumA(ex, b, k):
    rope = to_rope(b)
    f = _rope_fn(ex, "SA", rope)
    kz = zint(k)
    ex.st.assume(mk_bool(f(0) == 0))
    ex.st.assume(mk_bool(z3.Implies(kz > 0, f(kz) == f(kz - 1) + rope.at(z3.simplify(kz - 1)))))
    return SInt(f(kz))


def s_fsumB(ex, b, k):
    rope = to_rope(b)
    fa = _rope_fn(ex, "SA", rope)
    fb = _rope_fn(ex, "SB", rope)
    kz = zint(k)
    ex.st.assume(mk_bool(z3.And(fa(0) == 0, fb(0) == 0)))
    ex.st.assume(mk_bool(z3.Implies(kz > 0, z3.And(fa(kz) == fa(kz - 1) + rope.at(z3.simplify(kz - 1)),
                                                    fb(kz) == fb(kz - 1) + fa(kz)))))
    return SInt(fb(kz))


def s_fletcher8(ex, b):
    if isinstance(b, (bytes, bytearray)):
        return n_fletcher8(bytes(b))
    if not isinstance(b, SBytes):
        raise Unsupported("fletcher8 of non-bytes")
    if b.is_concrete():
        return n_fletcher8(b.concrete())
    A, B = ex.st.uf_apply("fletcher8", b, (), (IntS, IntS), native=lambda bs: tuple(n_fletcher8(bs)),
                          bounded_def=_fletcher_unrolled)
    fa = _rope_fn(ex, "SA", b)
    fb = _rope_fn(ex, "SB", b)
    n = zint(b.length())
    ex.st.assume(mk_bool(z3.And(A == fa(n) % 256, B == fb(n) % 256, fa(0) == 0, fb(0) == 0)))
    return SBytes.cells([A, B])


def _fletcher_unrolled(rope, results, bound=14):
    """the definition, unrolled: for len <= bound the two sums are explicit (used to make counter-models real)"""
    A, B = results
    n = zint(rope.length())
    cases = []
    for ln in range(bound + 1):
        cells = [rope.at(k) for k in range(ln)]
        sa = z3.Sum(cells) if len(cells) > 1 else (cells[0] if cells else z3.IntVal(0))
        sb = z3.Sum([(ln - k) * c for k, c in enumerate(cells)]) if len(cells) > 1 else \
            (cells[0] if cells else z3.IntVal(0))
        cases.append(z3.Implies(n == ln, z3.And(A == sa % 256, B == sb % 256)))
    return z3.And(*cases)


def s_u_le(ex, b):
    return ex.bm.int_from_bytes(b, "little", signed=False)


def s_s_le(ex, b):
    return ex.bm.int_from_bytes(b, "little", signed=True)


def s_u_be(ex, b):
    return ex.bm.int_from_bytes(b, "big", signed=False)


def s_implies(ex, a, b):
    ta, tb = ex.bm.truth(a), ex.bm.truth(b)
    if ta is False or tb is True:
        return True
    if ta is True:
        return tb
    return mk_bool(z3.Implies(zbool(ta), zbool(tb)))


def s_iff(ex, a, b):
    ta, tb = ex.bm.truth(a), ex.bm.truth(b)
    if isinstance(ta, bool) and isinstance(tb, bool):
        return ta == tb
    return mk_bool(zbool(ta) == zbool(tb))


def s_wf_frame(ex, m):
    rope = to_rope(m)
    bm = ex.bm
    n = bm.b_len(rope)
    c1 = bm.compare_ge(n, 8) if hasattr(bm, "compare_ge") else mk_bool(zint(n) >= 8)
    hdr = bm.subscript(rope, slice(0, 2))
    c2 = bm.equals(hdr, b"\xb5\x62")
    lenb = bm.subscript(rope, slice(4, 6))
    # guard: u_le needs the two bytes; under c1 they exist
    nz = zint(n)
    lenv = rope.at(4) + 256 * rope.at(5)
    c3 = mk_bool(lenv == nz - 8)
    body = bm.subscript(rope, slice(2, mk_int(nz - 2)))
    ck = bm.subscript(rope, slice(mk_int(nz - 2), None))
    c4 = bm.equals(ck, s_fletcher8(ex, body))
    acc = True
    for c in (c1, c2, c3, c4):
        acc = bm.and_(acc, c)
    return acc


def n_unpackf(b: bytes):
    import struct
    return struct.unpack("<f" if len(b) == 4 else "<d", b)[0]


def s_unpackf(ex, b):
    rope = to_rope(b)
    n = rope.concrete_len()
    if n not in (4, 8):
        n = 4 if ex.st.must(zint(rope.length()) == 4) else (8 if ex.st.must(zint(rope.length()) == 8) else None)
    if n is None:
        raise Unsupported("unpackf of rope with unknown length")
    return ex.bm.b_struct_unpack("<f" if n == 4 else "<d", SBytes(rope.segs) if rope.concrete_len() else rope.slice(0, n))[0]


def n_bytes_to_list(b: bytes, n: int):
    return [b[i] for i in range(n)]


def s_bytes_to_list(ex, b, n):
    rope = to_rope(b)
    return ex.st.alloc("list", None, items=[mk_int(rope.at(i)) for i in range(n)])


def _nmea_hdrs():
    from pynmeagps import NMEA_HDR  # table of the dependency: '$' + first talker letter
    return sorted(NMEA_HDR)


def n_is_nmea_hdr(b: bytes) -> bool:
    return bytes(b) in _nmea_hdrs()


def s_is_nmea_hdr(ex, b):
    acc = False
    for h in _nmea_hdrs():
        acc = ex.bm.or_(acc, ex.bm.equals(b, h))
    return acc


def n_getinputmode_spec(data: bytes) -> int:
    """SET/POLL heuristic as documented for getinputmode (1 = SET, 2 = POLL)"""
    if len(data) == 8 or data[2:4] == b"\x06\x8b" or (
            data[2:4] in (b"\x06\x01", b"\x06\x02", b"\x06\x03", b"\x06\x31") and len(data) <= 10):
        return 2
    return 1


def s_getinputmode_spec(ex, data):
    bm = ex.bm
    rope = to_rope(data)
    n = zint(rope.length())
    ci = bm.subscript(rope, slice(2, 4))
    c = mk_bool(n == 8)
    c = bm.or_(c, bm.equals(ci, b"\x06\x8b"))
    four = False
    for k in (b"\x06\x01", b"\x06\x02", b"\x06\x03", b"\x06\x31"):
        four = bm.or_(four, bm.equals(ci, k))
    c = bm.or_(c, bm.and_(four, mk_bool(n <= 10)))
    if isinstance(c, bool):
        return 2 if c else 1
    return mk_int(z3.If(zbool(c), z3.IntVal(2), z3.IntVal(1)))


def n_tzc(m: int) -> int:
    """number of trailing zero bits of m > 0"""
    t = 0
    while m % 2 == 0:
        m //= 2
        t += 1
    return t


def s_tzc(ex, m):
    if isinstance(m, int):
        return n_tzc(m)
    mz = zint(m)
    key = ("tzc", mz.get_id())
    cache = ex.st.ghost.setdefault("tzc", {})
    if key in cache:
        return cache[key]
    t = z3.Int(fresh_name("tz"))
    p = ex.bm.pow2(t)
    ex.st.assume(mk_bool(z3.And(t >= 0, t <= 64, mz % p == 0, (mz / p) % 2 == 1)))
    cache[key] = SInt(t)
    return cache[key]


def n_is_nmea_hdr2(b2: int) -> bool:
    return bytes((0x24, b2)) in _nmea_hdrs()


def s_is_nmea_hdr2(ex, b2):
    if isinstance(b2, int):
        return n_is_nmea_hdr2(b2)
    acc = False
    for h in _nmea_hdrs():
        acc = ex.bm.or_(acc, mk_bool(zint(b2) == h[1]))
    return acc


def n_eol(data: bytes, q: int) -> int:
    i = data.find(b"\n", q)
    return len(data) if i < 0 else i + 1


def n_ext_parse(proto, raw, o1, o2, o3):
    """run the real protocol parser; status 0 + value, or the index (1-based) of the exception class it raised"""
    from pvc.models_io import ext_classes
    classes = ext_classes(proto)
    try:
        if proto == "ubx":
            from pyubx2 import UBXReader
            return 0, UBXReader.parse(raw, msgmode=o1, parsebitfield=o2, validate=o3)
        if proto == "nmea":
            from pynmeagps import NMEAReader
            return 0, NMEAReader.parse(raw, msgmode=o1, validate=o2)
        from pyrtcm import RTCMReader
        return 0, RTCMReader.parse(raw, labelmsm=o1, validate=o2)
    except tuple(classes) as e:
        for i, c in enumerate(classes):
            if type(e) is c:
                return i + 1, None
        raise


def s_ext_parse(ex, proto, raw, o1, o2, o3):
    from pvc.models_io import ext_parse
    return ext_parse(ex, proto, raw, o1, o2, o3)


def s_eol(ex, data, q):
    from pvc.models_io import eol
    return eol(ex, data, q)


def n_no_lf(data: bytes, lo: int, hi: int) -> bool:
    return b"\n" not in data[lo:hi]


def s_no_lf(ex, data, lo, hi):
    """forall j in [lo, hi): data[j] != LF  -- proxy with both sound directions (hypothesis: instances at the
    path's trigger terms; goal: Skolem witness)"""
    rope = to_rope(data)
    st = ex.st
    loz, hiz = zint(lo), zint(hi)
    if isinstance(lo, int) and isinstance(hi, int) and hi - lo <= 16:
        acc = True
        for j in range(lo, hi):
            acc = ex.bm.and_(acc, mk_bool(rope.at(j) != 0x0A))
        return acc
    p = z3.Bool(fresh_name("nolf"))
    kap = st.skolem("kap")
    st.assume(mk_bool(z3.Implies(z3.Not(p), z3.And(kap >= loz, kap < hiz, rope.at(kap) == 0x0A))))
    st.add_forall(lambda j, p=p, loz=loz, hiz=hiz, rope=rope: z3.Implies(z3.And(p, j >= loz, j < hiz), rope.at(j) != 0x0A))
    return SBool(p)


def _stream_parts(ex, obj):
    """(data rope, pos, n) of an abstract stream: StreamModel, or a SocketWrapper over the ghost socket
    (data = everything the peer sends, pos = bytes delivered by recv minus bytes still buffered)"""
    from pvc.models_io import StreamModel
    from pvc.values import Ref
    st = ex.st
    if isinstance(obj, Ref) and obj.cls is StreamModel:
        rec = st.rec(obj)
        return SBytes.view(rec["data"], 0, rec["n"]), mk_int(rec["pos"]), mk_int(rec["n"])
    if isinstance(obj, Ref) and getattr(obj.cls, "__name__", "") == "SocketWrapper":
        f = st.rec(obj)["fields"]
        srec = st.rec(f["_socket"])
        buf = f["_buffer"]
        blen = zint(ex.bm.b_len(buf))
        return SBytes.view(srec["total"], 0, srec["n"]), mk_int(srec["d"] - blen), mk_int(srec["n"])
    raise Unsupported("stream accessor on unknown object")


def s_st_data_of_input(ex, obj):
    """bytes a reader input stands for: the stream's contents, or everything the socket's peer sends"""
    from pvc.models_io import SocketModel
    from pvc.values import Ref
    if isinstance(obj, Ref) and obj.cls is SocketModel:
        rec = ex.st.rec(obj)
        return SBytes.view(rec["total"], 0, rec["n"])
    return _stream_parts(ex, obj)[0]


def s_st_pos_of_input(ex, obj):
    from pvc.models_io import SocketModel
    from pvc.values import Ref
    if isinstance(obj, Ref) and obj.cls is SocketModel:
        return mk_int(ex.st.rec(obj)["d"])
    return _stream_parts(ex, obj)[1]


def s_st_data(ex, obj):
    return _stream_parts(ex, obj)[0]


def s_st_pos(ex, obj):
    return _stream_parts(ex, obj)[1]


def s_st_n(ex, obj):
    return _stream_parts(ex, obj)[2]


def n_payload_bytes(p):
    return b"" if p is None else p


def s_payload_bytes(ex, p):
    return b"" if p is None else p


def s_same_frame(ex, a, b):
    """two message objects serialize identically (by the serialize contract: same stored fields)"""
    bm = ex.bm
    acc = True
    for f in ("_ubxClass", "_ubxID", "_length", "_checksum"):
        acc = bm.and_(acc, bm.equals(bm.get_attr(a, f), bm.get_attr(b, f)))
    pa, pb = bm.get_attr(a, "_payload"), bm.get_attr(b, "_payload")
    if (pa is None) != (pb is None):
        return False
    if pa is not None:
        acc = bm.and_(acc, bm.equals(pa, pb))
    return acc


def s_repr_of(ex, v):
    """the text an f-string interpolates for v (repr of bytes / int): an opaque but injective piece"""
    from pvc.builtins_model import ReprOf
    from pvc.values import SStr, Sym
    if isinstance(v, Sym):
        return SStr((ReprOf(v),))
    return str(v)


def _cfgdb():
    from pvc import extract
    mod = extract.load_module("pyubx2.ubxtypes_configdb")[0]
    return mod.UBX_CONFIG_DATABASE, mod.UBX_CONFIG_STORSIZE


def n_cfgkey2name_spec(keyid: int):
    """documented lookup: the first database entry with this key ID; otherwise CFG_<hex id> typed as raw bytes of
    the storage size that bits 30..28 of the key ID (the size code) prescribe"""
    db, stor = _cfgdb()
    for name, (kid, typ) in db.items():
        if kid == keyid:
            return (name, typ)
    if keyid >= (1 << 31):
        raise KeyError("reserved bit 31 set")
    return ("CFG_" + hex(keyid), "X%03d" % stor[(keyid >> 28) & 7])


def s_cfgkey2name_spec(ex, keyid):
    """symbolic key ID: the result's *type* is decided by a finite case split (one case per attribute type in the
    database, then per size code for unknown IDs); the name is 'CFG_' + text determined by the key ID"""
    from pvc.values import SStr, Opaque
    from pvc.builtins_model import HexInt
    if isinstance(keyid, int):
        return n_cfgkey2name_spec(keyid)
    db, stor = _cfgdb()
    k = zint(keyid)
    st = ex.st
    bytype = {}
    seen = set()
    for name, (kid, typ) in db.items():
        if kid in seen:
            continue
        seen.add(kid)
        bytype.setdefault(typ, []).append(kid)
    for typ in sorted(bytype):
        if st.branch(mk_bool(z3.Or(*[k == kid for kid in bytype[typ]]))):
            return (SStr(("CFG_", Opaque("dbname"))), typ)
    for code, size in sorted(stor.items()):
        if st.branch(mk_bool(z3.And(k < (1 << 31), (k / (1 << 28)) % 8 == code))):
            return (SStr(("CFG_", HexInt(k))), "X%03d" % size)
    ex.bm.raise_(KeyError, "size code")


# storage width by size code (bits 30..28 of a key ID), restated from the u-blox interface description - deliberately
# not read from the library's UBX_CONFIG_STORSIZE table: 1 -> one bit (one byte), 2 -> 1, 3 -> 2, 4 -> 4, 5 -> 8 bytes
CFG_WIDTH_BY_SIZECODE = {1: 1, 2: 1, 3: 2, 4: 4, 5: 8}


def n_cfg_item_width(keyid: int) -> int:
    return CFG_WIDTH_BY_SIZECODE.get((keyid >> 28) & 7, -1)


def s_cfg_item_width(ex, keyid):
    if isinstance(keyid, int):
        return n_cfg_item_width(keyid)
    k = zint(keyid)
    code = (k / (1 << 28)) % 8
    e = z3.IntVal(-1)
    for c, w in CFG_WIDTH_BY_SIZECODE.items():
        e = z3.If(code == c, z3.IntVal(w), e)
    return mk_int(e)


def n_cfg_sizecode_invalid(keyid: int) -> bool:
    db, stor = _cfgdb()
    return keyid not in {k for k, _ in db.values()} and (keyid >= (1 << 31) or ((keyid >> 28) & 7) not in stor)


def s_cfg_sizecode_invalid(ex, keyid):
    if isinstance(keyid, int):
        return n_cfg_sizecode_invalid(keyid)
    db, stor = _cfgdb()
    k = zint(keyid)
    kids = sorted({kid for kid, _ in db.values()})
    return mk_bool(z3.And(z3.And(*[k != kid for kid in kids]),
                          z3.Or(k >= (1 << 31), z3.And(*[(k / (1 << 28)) % 8 != code for code in stor]))))


def n_cfgname2key_spec(name):
    return _cfgdb()[0][name]


def n_cfgname_known(name):
    return name in _cfgdb()[0]


def s_snapshot(ex, obj):
    """copy of a heap object's fields at this point (for `old(snapshot(x))`)"""
    rec = ex.st.rec(obj)
    return ex.st.alloc("obj", obj.cls, fields=dict(rec["fields"]))


from pvc.values import FSort as _FSort
FITS32 = z3.Function("fits_float32", _FSort, z3.BoolSort())  # the float is within single-precision range


def s_fits_float32(ex, v):
    from pvc.values import SFloat, i2f
    if isinstance(v, SFloat):
        return SBool(FITS32(v.e))
    if isinstance(v, float):
        import struct
        try:
            struct.pack("<f", v)
            return True
        except OverflowError:
            return False
    return SBool(FITS32(i2f(zint(v))))


def n_fits_float32(v):
    import struct
    try:
        struct.pack("<f", float(v))
        return True
    except (OverflowError, struct.error):
        return False


def n_msgname_spec(cls_name: str, msg_name: str):
    """class and ID bytes of a message addressed by names: the entries of the class table and the message-ID table"""
    from pvc import extract
    core = extract.load_module("pyubx2.ubxtypes_core")[0]
    c = [k for k, v in core.UBX_CLASSES.items() if v == cls_name][0]
    i = [k for k, v in core.UBX_MSGIDS.items() if v == msg_name][0]
    return (c, i[1:2])


def n_u16le_bytes(v: int) -> bytes:
    return bytes((v % 256, v // 256))


def s_u16le_bytes(ex, v):
    if isinstance(v, int):
        return n_u16le_bytes(v)
    vz = zint(v)
    return SBytes.cells([vz % 256, vz / 256])


def s_packf(ex, val, n):
    """struct.pack('<f'|'<d', val) as a function of the float (uninterpreted bytes; binary64 round-trips)"""
    from pvc.builtins_model import PACKF
    from pvc.values import SFloat, i2f, fconst, unpack_f
    if isinstance(val, float):
        import struct
        return struct.pack("<f" if n == 4 else "<d", val)
    fe = val.e if isinstance(val, SFloat) else i2f(zint(val))
    cells = [PACKF(z3.IntVal(n), fe, z3.IntVal(j)) for j in range(n)]
    for c in cells:
        ex.st.assume(mk_bool(z3.And(c >= 0, c <= 255)))
    if n == 8:
        ex.st.assume(mk_bool(unpack_f(z3.IntVal(8), z3.Sum([c * (1 << (8 * i)) for i, c in enumerate(cells)])) == fe))
    return SBytes.cells(cells)


def n_packf(val, n):
    import struct
    return struct.pack("<f" if n == 4 else "<d", float(val))


def install(reg):
    reg.spec("packf", s_packf, n_packf)
    reg.spec("msgname_spec", lambda ex, a, b: n_msgname_spec(a, b), n_msgname_spec)
    reg.spec("u16le_bytes", s_u16le_bytes, n_u16le_bytes)
    reg.spec("fits_float32", s_fits_float32, n_fits_float32)
    reg.spec("snapshot", s_snapshot, None)
    reg.spec("cfg_sizecode_invalid", s_cfg_sizecode_invalid, n_cfg_sizecode_invalid)
    reg.spec("cfg_item_width", s_cfg_item_width, n_cfg_item_width)
    # control-flow ghost: has the path entered the function's first loop?  (native twin: False - the replayer only
    # supplies item lists on which the loop and the constructor cannot refuse, so a native refusal is the limit check)
    # control-flow ghost: was the contract of <qualname suffix> applied on this path?  exc_name: class name of the
    # exception in an exceptional post-state.  (Native twins: a native run cannot see where an exception came from; the
    # twin of `called` answers True, so clauses built on it are only decided by the proof, never refuted natively.)
    reg.spec("called", lambda ex, suffix: any(str(q).endswith(suffix) for q in ex.st.ghost.get("calls", [])),
             lambda suffix: True)
    reg.spec("exc_name", lambda ex, e: e.cls.__name__, lambda e: type(e).__name__)
    # text fields (type CH): the library's text codec is UTF-8 with backslash escapes for undecodable bytes (docstrings
    # of val2bytes / bytes2val); decoding / encoding are functions of their argument
    def s_text_decode(ex, b):
        from pvc.values import SStr, TextOf, to_rope
        if isinstance(b, (bytes, bytearray)):
            return bytes(b).decode("utf-8", "backslashreplace")
        return SStr((TextOf(to_rope(b), "utf-8", "backslashreplace"),))

    def s_text_encode(ex, t):
        if isinstance(t, str):
            return t.encode("utf-8", "backslashreplace")
        return ex.bm.str_method(t, "encode", ["utf-8", "backslashreplace"], {})

    reg.spec("text_decode", s_text_decode, lambda b: bytes(b).decode("utf-8", "backslashreplace"))
    reg.spec("text_encode", s_text_encode, lambda t: t.encode("utf-8", "backslashreplace"))
    reg.spec("reached_loop", lambda ex: any(str(l).startswith("loop1") or ":loop1" in str(l) for l in ex.st.labels),
             lambda: False)
    reg.spec("cfgname2key_spec", lambda ex, name: n_cfgname2key_spec(name), n_cfgname2key_spec)
    reg.spec("cfgname_known", lambda ex, name: n_cfgname_known(name), n_cfgname_known)
    reg.spec("cfgkey2name_spec", s_cfgkey2name_spec, n_cfgkey2name_spec)
    reg.spec("repr_of", s_repr_of, lambda v: str(v))
    reg.spec("payload_bytes", s_payload_bytes, n_payload_bytes)
    reg.spec("same_frame", s_same_frame, None)
    reg.spec("no_lf", s_no_lf, n_no_lf)
    reg.spec("st_data", s_st_data, None)
    reg.spec("st_data_of_input", s_st_data_of_input, None)
    reg.spec("st_pos_of_input", s_st_pos_of_input, None)
    reg.spec("st_pos", s_st_pos, None)
    reg.spec("st_n", s_st_n, None)
    reg.spec("is_nmea_hdr2", s_is_nmea_hdr2, n_is_nmea_hdr2)
    reg.spec("eol", s_eol, n_eol)
    reg.spec("ext_parse", s_ext_parse, n_ext_parse)
    reg.spec("tzc", s_tzc, n_tzc)
    reg.spec("getinputmode_spec", s_getinputmode_spec, n_getinputmode_spec)
    reg.spec("unpackf", s_unpackf, n_unpackf)
    reg.spec("bytes_to_list", s_bytes_to_list, n_bytes_to_list)
    reg.spec("is_nmea_hdr", s_is_nmea_hdr, n_is_nmea_hdr)
    reg.spec("fletcher8", s_fletcher8, n_fletcher8)
    reg.spec("fsumA", s_fsumA, n_fsumA)
    reg.spec("fsumB", s_fsumB, n_fsumB)
    reg.spec("u_le", s_u_le, n_u_le)
    reg.spec("s_le", s_s_le, n_s_le)
    reg.spec("u_be", s_u_be, n_u_be)
    reg.spec("implies", s_implies, n_implies)
    reg.spec("iff", s_iff, n_iff)
    reg.spec("wf_frame", s_wf_frame, n_wf_frame)
