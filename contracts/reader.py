"""Contracts for pyubx2.ubxreader.UBXReader and pyubx2.socket_wrapper.SocketWrapper (DESIGN.md 4.3)."""
from pvc.contracts import Contract, Loop

R = "pyubx2.ubxreader.UBXReader."

PARSE_MODE = "(getinputmode_spec(message) if msgmode == 3 else msgmode)"
PARSE_PAYLOAD_NONE = "message[4:6] == b'\\x00\\x00'"


def install(reg):
    reg.add(Contract(
        R + "parse",
        params={"message": "bytes", "msgmode": "int", "validate": "int", "parsebitfield": "boolint"},
        ensures=[
            ("accept-implies-wf", "implies(validate & 1 != 0, wf_frame(message))"),
            ("class", "result._ubxClass == message[2:3]"),
            ("id", "result._ubxID == message[3:4]"),
            ("mode", f"result._mode == {PARSE_MODE}"),
            ("payload", f"(result._payload is None and {PARSE_PAYLOAD_NONE}) or "
                        f"(not {PARSE_PAYLOAD_NONE} and result._payload == message[6:len(message) - 2])"),
        ],
        raises={"UBXParseError": "msgmode not in (0, 1, 2, 3) or (validate & 1 != 0 and not wf_frame(message))",
                "UBXMessageError": None, "UBXTypeError": None},
        raises_iff={"UBXParseError": "msgmode not in (0, 1, 2, 3)"},
        modifies=[]))
