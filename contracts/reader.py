"""Contracts for pyubx2.ubxreader.UBXReader and pyubx2.socket_wrapper.SocketWrapper (DESIGN.md 4.3)."""
import z3

from pvc.contracts import Contract, Loop
from pvc.values import SInt, SBool, mk_bool

R = "pyubx2.ubxreader.UBXReader."
W = "pyubx2.socket_wrapper.SocketWrapper."

PARSE_MODE = "(getinputmode_spec(message) if msgmode == 3 else msgmode)"
PARSE_PAYLOAD_NONE = "message[4:6] == b'\\x00\\x00'"


def reader_object(style="file", quitonerror=None, handler="either"):
    """symbolic UBXReader over the abstract stream AS (ghost data/n/pos); every option symbolic"""

    def build(ex, name):
        from pvc import extract
        from pvc.models_io import StreamModel, LoggerModel, HandlerModel
        st = ex.st
        cls = extract.load_module("pyubx2.ubxreader")[0].UBXReader
        sty = style
        if sty == "either":
            sty = "file" if st.choice(2, "stream-style") == 0 else "socket"
        S = StreamModel.new(ex, sty)
        f = {"_stream": S}

        def ivar(nm, lo=None, hi=None):
            e = z3.Int(nm)
            if lo is not None:
                st.assume(mk_bool(z3.And(e >= lo, e <= hi)))
            st.inputs[nm] = ("int", e)
            return SInt(e)

        f["_protfilter"] = ivar("protfilter", 0, 7)
        f["_quitonerror"] = quitonerror if quitonerror is not None else ivar("quitonerror", 0, 2)
        f["_validate"] = ivar("validate", 0, 1)
        f["_parsebf"] = ivar("parsebf", 0, 1)
        f["_labelmsm"] = ivar("labelmsm", 1, 2)
        f["_msgmode"] = ivar("msgmode", 0, 3)
        pe = z3.Bool("parsing")
        st.inputs["parsing"] = ("bool", pe)
        f["_parsing"] = SBool(pe)
        f["_logger"] = LoggerModel.new(ex)
        if handler == "either":
            has = st.choice(2, "errorhandler") == 1
        else:
            has = bool(handler)
        f["_errorhandler"] = HandlerModel.new(ex) if has else None
        st.inputs["errorhandler"] = ("const", has)
        return st.alloc("obj", cls, fields=f)

    return build


READ_BYTES_EOF = "size > 0 and (self._stream.n - old(self._stream.pos) == 0 if self._stream.filestyle " \
                 "else self._stream.n - old(self._stream.pos) < size)"
READ_BYTES_SHORT = "self._stream.filestyle and 0 < self._stream.n - old(self._stream.pos) < size"


READ_LINE_NOLF = "old(self._stream.pos) < self._stream.n and " \
                 "self._stream.data[eol(self._stream.data, old(self._stream.pos)) - 1] != 0x0A"


def install(reg):
    reg.add(Contract(
        R + "parse",
        params={"message": "bytes", "msgmode": "int", "validate": "int", "parsebitfield": "boolint"},
        ensures=[
            ("accept-implies-wf", "implies(validate & 1 != 0, wf_frame(message))"),
            ("class", "result._ubxClass == message[2:3]"),
            ("id", "result._ubxID == message[3:4]"),
            ("mode", f"result._mode == {PARSE_MODE}"),
            ("view-forwarded", f"implies(not {PARSE_PAYLOAD_NONE}, result._parsebf == parsebitfield)"),
            ("payload-none", f"implies({PARSE_PAYLOAD_NONE}, result._payload is None)"),
            ("payload", f"implies(not {PARSE_PAYLOAD_NONE}, result._payload == message[6:len(message) - 2])"),
            ("length-width", "len(result._length) == 2"),
            ("length-value", "u_le(result._length) == len(payload_bytes(result._payload))"),
            ("checksum", "result._checksum == fletcher8(result._ubxClass + result._ubxID + result._length + "
                         "payload_bytes(result._payload))"),
        ],
        fresh_fields={"_length": ("bytesn", 2), "_checksum": ("bytesn", 2)},
        returns=lambda ex: ex.bm.new_object(__import__("pyubx2").UBXMessage),
        raises={"UBXParseError": "msgmode not in (0, 1, 2, 3) or (validate & 1 != 0 and not wf_frame(message))",
                # parse itself refuses nothing but malformed frames: a message / type error can only be the message
                # constructor's verdict on (class, ID, mode, payload) - whose acceptance of every conforming payload is
                # proved per definition
                "UBXMessageError": "called('UBXMessage.__init__')", "UBXTypeError": "called('UBXMessage.__init__')"},
        raises_iff={"UBXParseError": "msgmode not in (0, 1, 2, 3)"},
        modifies=[]))
    reg.add(Contract(
        R + "_read_bytes", params={"self": reader_object("either"), "size": "nat"},
        ensures=[("content", "result == self._stream.data[old(self._stream.pos):old(self._stream.pos) + size]"),
                 ("exactly-size", "len(result) == size"),
                 ("advance", "self._stream.pos == old(self._stream.pos) + size")],
        raises={"EOFError": READ_BYTES_EOF, "UBXStreamError": READ_BYTES_SHORT},
        raises_iff={"EOFError": READ_BYTES_EOF, "UBXStreamError": READ_BYTES_SHORT},
        ensures_exc=[("eof-only-when-exhausted", "implies(self._stream.filestyle, self._stream.pos == self._stream.n)"),
                     ("socket-keeps-position", "implies(not self._stream.filestyle, "
                                               "self._stream.pos == old(self._stream.pos))")],
        modifies=["self._stream.pos"]))
    reg.add(Contract(
        R + "_read_line", params={"self": reader_object("either")},
        ensures=[("to-first-lf", "self._stream.pos == eol(self._stream.data, old(self._stream.pos))"),
                 ("content", "result == self._stream.data[old(self._stream.pos):self._stream.pos]"),
                 ("lf-terminated", "result[-1:] == b'\\n'")],
        raises={"EOFError": "old(self._stream.pos) == self._stream.n", "UBXStreamError": READ_LINE_NOLF},
        raises_iff={"EOFError": "old(self._stream.pos) == self._stream.n", "UBXStreamError": READ_LINE_NOLF},
        ensures_exc=[("consumed-to-end", "self._stream.pos == self._stream.n")],
        modifies=["self._stream.pos"]))


# ---------------------------------------------------------------------------------------------------
# SocketWrapper over the ghost socket (C10).  Representation invariant (structural in the builder):
#   self._buffer == sock.total[c : sock.d]      c = st_pos(self) = bytes already handed to the reader
# ---------------------------------------------------------------------------------------------------
def wrapper_object():
    def build(ex, name):
        from pvc import extract
        from pvc.models_io import SocketModel
        from pvc.values import SBytes
        st = ex.st
        cls = extract.load_module("pyubx2.socket_wrapper")[0].SocketWrapper
        sock = SocketModel.new(ex)
        srec = st.rec(sock)
        c = z3.Int("consumed0")
        st.assume(mk_bool(z3.And(c >= 0, c <= srec["d"])))
        st.inputs["consumed0"] = ("int", c)
        bs = z3.Int("bufsize")
        st.assume(mk_bool(bs >= 1))
        st.inputs["bufsize"] = ("int", bs)
        buf = SBytes.view(srec["total"], c, z3.simplify(srec["d"] - c), "bytearray")
        return st.alloc("obj", cls, fields={"_socket": sock, "_bufsize": SInt(bs), "_buffer": buf})

    return build


SW_INV = "self._buffer == st_data(self)[st_pos(self):self._socket.d]"
SW_READ_FULL = "(len(result) == num and result == st_data(self)[old(st_pos(self)):old(st_pos(self)) + num] " \
               "and st_pos(self) == old(st_pos(self)) + num)"
SW_READ_NONE = "(result == b'' and st_pos(self) == old(st_pos(self)) and st_n(self) - old(st_pos(self)) < num)"


SW_POS0 = "old(st_pos(self))"
SW_FULL = f"st_n(self) - {SW_POS0} >= num"


def install_socket(reg):
    reg.add(Contract(
        W + "_recv", params={"self": wrapper_object()},
        ensures=[("buffer-grows-by-the-chunk",
                  "self._buffer == old(self._buffer) + st_data(self)[old(self._socket.d):self._socket.d]"),
                 ("grew-or-exhausted",
                  "(result == True and old(self._socket.d) < self._socket.d <= old(self._socket.d) + self._bufsize "
                  "and self._socket.d <= self._socket.n) or "
                  "(result == False and self._socket.d == old(self._socket.d) and self._socket.d == self._socket.n)"),
                 ("invariant", SW_INV)],
        raises={}, modifies=["self._buffer", "self._socket.d"], returns="bool"))
    reg.add(Contract(
        W + "read", params={"self": wrapper_object(), "num": "nat"},
        ensures=[("result", f"result == (st_data(self)[{SW_POS0}:{SW_POS0} + num] if {SW_FULL} else b'')"),
                 ("buffer", f"self._buffer == st_data(self)[({SW_POS0} + num if {SW_FULL} else {SW_POS0}):self._socket.d]"),
                 ("delivered", f"old(self._socket.d) <= self._socket.d <= self._socket.n and "
                               f"({SW_POS0} + num <= self._socket.d if {SW_FULL} else self._socket.d == self._socket.n)"),
                 ("exactly-n-or-nothing", f"{SW_READ_FULL} or {SW_READ_NONE}"),
                 ("invariant", SW_INV)],
        raises={}, modifies=["self._buffer", "self._socket.d"], returns="bytes",
        loops={1: Loop(ghost={"c0": "st_pos(self)", "d0": "self._socket.d"}, keep=("c0", "d0"),
                       heap={"self._socket.d": "int"},
                       inv=[("buffer", "self._buffer == st_data(self)[c0:self._socket.d]"),
                            ("delivered", "d0 <= self._socket.d <= self._socket.n and c0 <= self._socket.d")],
                       decreases="self._socket.n - self._socket.d")}))
    reg.add(Contract(
        W + "readline", params={"self": wrapper_object()},
        ensures=[("to-first-lf", f"st_pos(self) == eol(st_data(self), {SW_POS0})"),
                 ("content", f"result == st_data(self)[{SW_POS0}:st_pos(self)]"),
                 ("invariant", SW_INV)],
        raises={}, modifies=["self._buffer", "self._socket.d"], returns="bytes",
        loops={1: Loop(ghost={"c0": "st_pos(self)", "c": "st_pos(self)"}, keep=("c0",),
                       ghost_update={"c": "c0 + len(line)"},
                       heap={"self._socket.d": "int"},
                       kinds={"data": "bytes", "c": "int"},
                       inv=[("line", "line == st_data(self)[c0:c]"),
                            ("buffer", "self._buffer == st_data(self)[c:self._socket.d]"),
                            ("bounds", "c0 <= c and c <= self._socket.d and self._socket.d <= self._socket.n"),
                            ("no-lf-so-far", "no_lf(st_data(self), c0, c)")],
                       decreases="self._socket.n - c")}))


def read_result_model(ex, args, kwargs):
    """UBXReader.read as seen by __next__: some pair (raw, parsed); each component may be None"""
    from pvc.models_io import ParsedSym
    from pvc.values import SBytes, Base, fresh_name
    st = ex.st
    w = st.choice(4, "read-result")
    raw = None if w in (0, 1) else SBytes.view(Base("rawitem"), 0, 8)
    parsed = None if w in (0, 2) else ParsedSym(z3.Int(fresh_name("pid")), "ubx")
    st.ghost["read_result"] = (raw, parsed)
    return (raw, parsed)


def s_last_read(ex, i):
    return ex.st.ghost["read_result"][i]


def install_iter(reg):
    reg.spec("last_read", s_last_read, None)
    reg.add(Contract(
        R + "__next__", params={"self": reader_object("file")},
        ensures=[("returns-the-item", "result[0] == last_read(0) and result[1] == last_read(1)"),
                 ("item-not-empty", "not (last_read(0) is None and last_read(1) is None)")],
        raises={"StopIteration": "last_read(0) is None and last_read(1) is None"},
        modifies=[]))
    reg.add(Contract(
        R + "__iter__", params={"self": reader_object("file")},
        ensures=[("iterates-itself", "result is self")], raises={}, modifies=[]))
    reg.add(Contract(
        R + "__init__",
        params={"self": lambda ex, name: ex.bm.new_object(__import__("pyubx2").UBXReader),
                "datastream": stream_or_socket, "msgmode": "int", "validate": "int", "protfilter": "int",
                "quitonerror": "int", "parsebitfield": "boolint", "labelmsm": "int", "bufsize": "nat",
                "parsing": "bool", "errorhandler": handler_or_none},
        requires=["bufsize >= 1"],
        ensures=[("options-stored", "self._protfilter == protfilter and self._quitonerror == quitonerror and "
                                    "self._validate == validate and self._parsebf == parsebitfield and "
                                    "self._labelmsm == labelmsm and self._msgmode == msgmode and self._parsing == parsing"),
                 ("handler-stored", "self._errorhandler is errorhandler"),
                 ("stream-is-the-bytes-given", "st_data(self._stream) == st_data_of_input(datastream) and "
                                               "st_pos(self._stream) == old(st_pos_of_input(datastream))")],
        raises={"UBXStreamError": "msgmode not in (0, 1, 2, 3)"},
        raises_iff={"UBXStreamError": "msgmode not in (0, 1, 2, 3)"},
        modifies=["self.*", "datastream.d"]))


def _defaults_contract(arg=None):
    """the reader constructed with the stream alone: the options the reader properties presuppose when none is given -
    all three protocols pass the filter, frames are parsed, checksums are validated, GET mode, no handler"""
    c = Contract(
        R + "__init__",
        params={"self": lambda ex, name: ex.bm.new_object(__import__("pyubx2").UBXReader),
                "datastream": stream_or_socket, "msgmode": ("default",), "validate": ("default",),
                "protfilter": ("default",), "quitonerror": ("default",), "parsebitfield": ("default",),
                "labelmsm": ("default",), "bufsize": ("default",), "parsing": ("default",),
                "errorhandler": ("default",)},
        ensures=[("all-protocols-pass", "self._protfilter == 7"), ("frames-are-parsed", "self._parsing == True"),
                 ("checksums-validated", "self._validate == 1"), ("get-mode", "self._msgmode == 0"),
                 ("errors-logged-not-raised", "self._quitonerror == 1"), ("no-handler", "self._errorhandler is None")],
        raises={}, modifies=["self.*", "datastream.d"])
    return c


def handler_or_none(ex, name):
    """errorhandler argument: a callable or None"""
    from pvc.models_io import HandlerModel
    if ex.st.choice(2, "errorhandler-given") == 0:
        return None
    return HandlerModel.new(ex)


handler_or_none.native = lambda v: None


def stream_or_socket(ex, name):
    """the reader is given either a file-like stream or a socket"""
    from pvc.models_io import StreamModel, SocketModel
    if ex.st.choice(2, "datastream-kind") == 0:
        return StreamModel.new(ex, "file")
    return SocketModel.new(ex)
