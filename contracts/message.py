"""Contracts for pyubx2.ubxmessage.UBXMessage (DESIGN.md 4.2)."""
import z3

from pvc.contracts import Contract, Loop
from pvc.values import SBytes, SInt, SBool, Base, mk_bool, fresh_name

M = "pyubx2.ubxmessage.UBXMessage."


def msg_object(payload="either", immutable=None):
    """symbolic UBXMessage satisfying the class's representation invariant:
    1-byte class and id, 2-byte length and checksum, payload None or bytes, mode in 0..2"""

    def build(ex, name):
        from pvc import extract
        st = ex.st
        cls = extract.load_module("pyubx2.ubxmessage")[0].UBXMessage
        fields = {}
        descr = {}

        def fixed(fname, n):
            b = Base(fname)
            fields[fname] = SBytes.view(b, 0, n)
            descr[fname] = ("bytes", b, z3.IntVal(n))

        fixed("_ubxClass", 1)
        fixed("_ubxID", 1)
        fixed("_length", 2)
        fixed("_checksum", 2)
        has_payload = payload == "bytes" or (payload == "either" and st.choice(2, "payload-none") == 1)
        if has_payload:
            b = Base("_payload")
            n = z3.Int("_payload_len")
            st.assume(mk_bool(n >= 0))
            fields["_payload"] = SBytes.view(b, 0, n)
            descr["_payload"] = ("bytes", b, n)
        else:
            fields["_payload"] = None
            descr["_payload"] = ("const", None)
        m = z3.Int("_mode")
        st.assume(mk_bool(z3.And(m >= 0, m <= 2)))
        fields["_mode"] = SInt(m)
        descr["_mode"] = ("int", m)
        if immutable is None:
            im = z3.Bool("_immutable")
            fields["_immutable"] = SBool(im)
            descr["_immutable"] = ("bool", im)
        else:
            fields["_immutable"] = immutable
            descr["_immutable"] = ("const", immutable)
        fields["_parsebf"] = True
        st.inputs[name] = ("obj", descr)
        return st.alloc("obj", cls, fields=fields)

    def native(d):
        """real UBXMessage carrying the decoded field values (bypassing the constructor)"""
        from pyubx2 import UBXMessage
        m = object.__new__(UBXMessage)
        object.__setattr__(m, "_parsebf", True)
        for k, v in (d or {}).items():
            object.__setattr__(m, k, v)
        return m

    build.native = native
    return build


PAYLOAD_BYTES = "(b'' if self._payload is None else self._payload)"

LEN_CK_POST = [
    ("length-width", "len(self._length) == 2"),
    ("length-value", f"u_le(self._length) == len({PAYLOAD_BYTES})"),
    ("checksum", f"self._checksum == fletcher8(self._ubxClass + self._ubxID + self._length + {PAYLOAD_BYTES})"),
]


def install(reg):
    # attribute stores / deletions are the semantics of assignment statements: always executed from the body
    reg.force_inline.update({M + "__setattr__", M + "__delattr__"})
    reg.add(Contract(
        M + "serialize",
        params={"self": msg_object()},
        ensures=[("frame", "result == b'\\xb5\\x62' + self._ubxClass + self._ubxID + self._length + "
                           f"{PAYLOAD_BYTES} + self._checksum")],
        raises={}, modifies=[], returns="bytes"))
    reg.add(Contract(
        M + "_do_len_checksum",
        params={"self": msg_object(immutable=False)},
        ensures=LEN_CK_POST,
        raises={"OverflowError": f"len({PAYLOAD_BYTES}) > 65535"},
        raises_iff={"OverflowError": f"len({PAYLOAD_BYTES}) > 65535"},
        modifies=["self._length", "self._checksum"]))
    for prop, field in (("msg_cls", "_ubxClass"), ("msg_id", "_ubxID"), ("payload", "_payload"), ("msgmode", "_mode")):
        reg.add(Contract(M + prop, params={"self": msg_object()},
                         ensures=[("getter", f"result == self.{field}") if field != "_payload" else
                                  ("getter", "(result is None and self._payload is None) or result == self._payload")],
                         raises={}, modifies=[]))
    for meth, sig in (("__setattr__", {"name": ("const", "iTOW"), "value": "int"}), ("__delattr__", {"name": ("const", "_mode")})):
        reg.add(Contract(
            M + meth, params={"self": msg_object(), **sig},
            ensures=[("mutable-only-during-construction", "old(self._immutable) == False")],
            raises={"UBXMessageError": "old(self._immutable) == True"},
            raises_iff={"UBXMessageError": "old(self._immutable) == True"},
            ensures_exc=[("frame-unchanged", "same_frame(self, old(snapshot(self)))")],
            modifies=["self.iTOW", "self._mode"]))
    reg.add(Contract(
        M + "__repr__", params={"self": msg_object()},
        ensures=[("constructor-expression",
                  "result == ('UBXMessage(' + repr_of(self._ubxClass) + ', ' + repr_of(self._ubxID) + ', ' + "
                  "repr_of(self._mode) + ')' if self._payload is None else 'UBXMessage(' + repr_of(self._ubxClass) + "
                  "', ' + repr_of(self._ubxID) + ', ' + repr_of(self._mode) + ', payload=' + repr_of(self._payload) + ')')")],
        raises={}, modifies=[], returns="str"))
    reg.add(Contract(M + "length", params={"self": msg_object()},
                     ensures=[("getter", "result == u_le(self._length)")], raises={}, modifies=[], returns="int"))
    reg.add(Contract(
        M + "_set_attribute_cfgval", params={},
        notes="inlined in instance mode; only the loop contract is used there (proved on every instance path)",
        loops={1: Loop(inv=[("counter", "0 <= i <= 4"), ("offset", "offset >= old_offset"),
                            # the first item starts right after the documented 4-byte header (old_offset is the
                            # offset the function was entered with; proved at loop entry, trivially preserved)
                            ("first-item-follows-the-4-byte-header", "old_offset == 4"),
                            ("cfglen", "(cfglen == len(self._payload) - old_offset) or (cfglen == 0 and len(self._payload) < old_offset)")],
                       # contiguity of items (C14): an iteration that handles an item moves the offset past the key
                       # and exactly the storage width the key ID's size code prescribes; any other iteration leaves
                       # it where it is; the loop only stops when no complete item (>= 5 bytes) is left
                       step=[("next-item-follows-this-one", "implies(pre_i == 4, offset == pre_offset + 4 + cfg_item_width(key))"),
                             ("other-iterations-skip-nothing", "implies(pre_i != 4, offset == pre_offset)")],
                       exit=[("no-complete-item-left", "len(self._payload) - offset <= 4")],
                       kinds={"key": "int", "keyname": "unbound", "att": "unbound", "atts": "unbound",
                              "valb": "unbound", "val": "unbound"},
                       decreases="(cfglen - offset, 4 - i)")}))
    # generic constructor contract: what every caller may rely on, whatever the class/ID (proved per definition
    # instance and for the residual unknown-ID case in instance mode; used modularly by parse and config_*)
    reg.add(Contract(
        M + "__init__",
        params={},
        ensures=[
            ("class", "implies(isinstance(ubxClass, bytes), self._ubxClass == ubxClass)"),
            ("id", "implies(isinstance(ubxClass, bytes), self._ubxID == ubxID)"),
            ("class-from-name", "implies(isinstance(ubxClass, str), self._ubxClass == msgname_spec(ubxClass, ubxID)[0])"),
            ("id-from-name", "implies(isinstance(ubxClass, str), self._ubxID == msgname_spec(ubxClass, ubxID)[1])"),
            ("class-from-int", "implies(isinstance(ubxClass, int), self._ubxClass == bytes((ubxClass,)))"),
            ("id-from-int", "implies(isinstance(ubxClass, int), self._ubxID == bytes((ubxID,)))"),
            ("mode", "self._mode == msgmode"),
            ("payload-kept", "implies('payload' in kwargs, self._payload == kwargs['payload'])"),
            ("payload-none", "implies(len(kwargs) == 0, self._payload is None)"),
            ("immutable", "self._immutable == True"),
            # the bitfield view the caller asked for is the one the message is built with (parse relies on it)
            ("view-stored", "self._parsebf == parsebitfield"),
        ] + LEN_CK_POST,
        raises={"UBXMessageError": None, "UBXTypeError": None},
        fresh_fields={"_length": ("bytesn", 2), "_checksum": ("bytesn", 2)},
        modifies=["self.*"]))


def immutable_any_name(meth):
    """once initialised (_immutable True), __setattr__/__delattr__ refuse *every* attribute name (opaque symbolic name)
    and leave the stored frame untouched"""
    from pvc.values import SStr, Opaque

    def anyname(ex, name):
        return SStr((Opaque("any-attribute-name"),))

    # names tried by the native replayer: existing private / public attribute, new private / public name
    anyname.native_candidates = ["_payload", "_ubxClass", "_immutable", "_x", "x", "payload", "identity"]
    anyname.native = lambda v: v if isinstance(v, str) else "_payload"
    sig = {"name": anyname}
    if meth == "__setattr__":
        sig["value"] = "int"
    return Contract(
        M + meth, params={"self": msg_object(immutable=True), **sig},
        ensures=[("never-returns", "False")],
        raises={"UBXMessageError": None},
        ensures_exc=[("frame-unchanged", "same_frame(self, old(snapshot(self)))")],
        modifies=[])


def c15_set_attribute_bits(arg):
    """keyword branch of _set_attribute_bits for a value of an arbitrary Python kind.  int (any magnitude): either refused
    with a translated exception, or the value fits its slot and only that slot of the bitfield changes.  Any other kind
    (float, str, bytes, None): a bit flag has no encoding for it, so it must be refused - a normal return is a violation."""
    bfoffset, width = arg[0], arg[1]
    kind = arg[2] if len(arg) > 2 else "int"
    from pvc.builtins_model import KwMap
    from contracts.helpers import any_value

    def kw(ex, name):
        import z3
        from pvc.values import SInt
        if kind == "int":
            e = z3.Int("flagval")
            ex.st.inputs["flagval"] = ("int", e)
            return KwMap({"flag": SInt(e)})
        return KwMap({"flag": any_value(kind, "U001")(ex, "flagval")})

    def kwnative(inputs):
        if kind == "int":
            v = inputs.get("flagval")
            return {"flag": v if isinstance(v, int) else 0}
        return {"flag": {"float": 1.5, "str": "1", "bytes": b"1", "none": None}[kind]}

    kw.native = kwnative

    def lst(ex, name):
        return ex.st.alloc("list", None, items=[])

    lst.native = lambda v: []
    if kind == "int":
        ens = [("fits-its-slot", f"0 <= kwargs['flag'] < {1 << width}"),
               ("only-its-slot-changes", f"result[0] == bitfield + kwargs['flag'] * {1 << bfoffset}"),
               ("offset-advances", f"result[1] == {bfoffset + width}")]
    else:
        ens = [("non-integer-flag-value-refused", "False")]
    return Contract(
        M + "_set_attribute_bits",
        params={"self": msg_object(immutable=False), "bitfield": "nat", "bfoffset": ("const", bfoffset),
                "key": ("const", "flag"), "keyt": ("const", "U%03d" % width), "index": lst, "**": kw},
        requires=[f"0 <= bitfield < {1 << bfoffset}"],
        ensures=ens,
        raises={k: None for k in ("TypeError", "OverflowError", "ValueError", "AttributeError", "IndexError", "error")},
        modifies=["self.flag"])


def c15_set_attribute_single(arg):
    """keyword branch of _set_attribute_single for one field of type T and a value of an arbitrary Python kind:
    either a translated exception, or exactly size(T) bytes are appended and the earlier payload bytes are untouched"""
    T, kind, scaled = arg
    from pvc.builtins_model import KwMap
    from contracts.helpers import any_value, tsize, c15_val2bytes, ANY_KINDS
    n = tsize(T)

    def kw(ex, name):
        return KwMap({"x": any_value(kind, T)(ex, "val")})

    def kwnative(inputs):
        v = inputs.get("val")
        samples = {"int": v if isinstance(v, int) else 0, "float": 0.0, "str": "", "bytes": v if isinstance(v, bytes) else b"",
                   "none": None}
        return {"x": samples.get(kind, any_value(kind, T).native(v))}

    kw.native = kwnative

    def lst(ex, name):
        return ex.st.alloc("list", None, items=[])

    lst.native = lambda v: []

    def setup_registry(reg):
        fam = {T: c15_val2bytes((T, kind if not scaled else "int"))}
        reg.family("pyubx2.ubxhelpers.val2bytes", "att", fam)

    # what the appended bytes must decode to (same clauses as val2bytes' own contract, stated on the payload tail, so
    # that a value swapped or defaulted *before* val2bytes is called is noticed here)
    from contracts.helpers import INT_LETTERS
    L = T[0]
    tail = "self._payload[len(old(self._payload)):len(self._payload)]"
    decodes = []
    if kind == "none" or (scaled and kind not in ("int", "float")):
        decodes.append(("value-of-the-wrong-type-refused", "False"))
    elif not scaled:
        if L in INT_LETTERS:
            decodes.append(("field-decodes-to-the-value", f"{'s_le' if L == 'I' else 'u_le'}({tail}) == kwargs['x']"))
        elif L in ("X", "C") and kind == "bytes":
            decodes.append(("field-holds-the-value", f"{tail} == kwargs['x']"))
    c = Contract(
        M + "_set_attribute_single",
        params={"self": msg_object(payload="bytes", immutable=False), "anam": ("const", "x"),
                "adef": ("const", [T, 0.01] if scaled else T), "offset": "nat", "index": lst, "**": kw},
        ensures=[("appends-exactly-the-field", f"len(self._payload) == len(old(self._payload)) + {n}"),
                 ("earlier-bytes-untouched", "self._payload[0:len(old(self._payload))] == old(self._payload)"),
                 ("offset-advances", f"result == offset + {n}")] + decodes,
        # exactly the classes the constructor's handlers translate (ground obligation translation-complete)
        raises={k: None for k in ("TypeError", "OverflowError", "ValueError", "AttributeError", "IndexError", "error",
                                  "UBXTypeError")},
        modifies=["self._payload", "self.x"])
    c.registry_setup = setup_registry
    return c


# --------------------------------------------------------------------------------------------------------------
# configuration database helpers (C14)
# --------------------------------------------------------------------------------------------------------------
def symseq(form, with_values):
    def build(ex, name):
        from pvc.configdb import SymSeq
        return SymSeq(ex.st, name, form, with_values)

    def _items(n):
        import pyubx2.ubxtypes_configdb as cdb
        out = []
        for nm, (kid, typ) in list(cdb.UBX_CONFIG_DATABASE.items())[:n]:
            k = nm if form == "name" else kid
            out.append((k, b"\x00" * int(typ[1:4]) if typ[0] == "X" else (0.0 if typ[0] == "R" else 0)) if with_values else k)
        return out

    # the replayer has no decoder for a symbolic item list: it tries lists of valid items at the boundary lengths
    build.native = lambda v: v if isinstance(v, list) else _items(1)
    build.native_candidates = [_items(0), _items(1), _items(63), _items(64), _items(65)]
    return build


CFG_LOOP_KINDS = {"att": "unbound", "key": "unbound", "val": "unbound", "kid": "unbound", "keyb": "unbound",
                  "valb": "unbound", "cfgItem": "unbound", "_": "unbound"}


def c14_config(arg):
    """config_set / config_del / config_poll over a symbolic item list of `form` keys"""
    fn, form = arg
    withv = fn == "config_set"
    seqparam = "cfgData" if withv else "keys"
    if fn == "config_poll":
        params = {"layer": "byte", "position": "u16", seqparam: symseq(form, withv)}
        header = "bytes((0, layer)) + u16le_bytes(position)"
        cid = "b'\\x8b'"
        mode = 2
    else:
        params = {"layers": "byte", "transaction": "byte", seqparam: symseq(form, withv)}
        header = "bytes((0 if transaction == 0 else 1, layers, transaction, 0))"
        cid = "b'\\x8a'" if withv else "b'\\x8c'"
        mode = 1
    return Contract(
        M + fn, params=params,
        ensures=[("class", "result._ubxClass == b'\\x06'"), ("id", f"result._ubxID == {cid}"), ("mode", f"result._mode == {mode}"),
                 ("payload", f"result._payload == {header} + cfg_enc({seqparam}, len({seqparam}))"),
                 ("at-most-64", f"len({seqparam}) <= 64")],
        raises={"UBXMessageError": None, "UBXTypeError": None},
        # the item limit is 64, not fewer: a refusal that happens before the first item is looked at (the limit check)
        # implies more than 64 items.  (Refusals from inside the loop - unknown key name, invalid size code - and from
        # the message constructor are covered by the unconditional raises clause.)
        ensures_exc=[("limit-is-64", f"reached_loop() or len({seqparam}) > 64")],
        modifies=[],
        loops={1: Loop(index="k", inv=[("items-so-far", f"lis == cfg_enc({seqparam}, k)")], kinds=dict(CFG_LOOP_KINDS))})
