"""
Executable specification of one framing step of the stream reader, written from the protocol framing rules
and the statements of properties C06-C12 (not from ubxreader.py):

  UBX    b5 62 | class id | len (u16 little endian) | payload[len] | ck_a ck_b
  NMEA   '$' + first talker letter (table of the NMEA library) ... up to and including the next LF
  RTCM3  d3 | 6 zero bits + 10-bit length (big endian over bytes 2-3) | payload[length] | 3 CRC bytes

The same text is (a) executed symbolically by pvc as the right-hand side of the step contract of
UBXReader.read and of the relational lemmas, and (b) run natively against the real reader (bounded cross-check).
`ext_parse`, `eol`, `is_nmea_hdr2` are specification primitives (uninterpreted protocol parsers, end of line).
"""

EOF_ = 0      # end of stream reported
ITEM = 1      # a frame is delivered
SKIP = 2      # a noise byte or a filtered-out frame was consumed, nothing reported
REJECT = 3    # a frame (or frame fragment) was consumed and rejected with an error

E_STREAM = 100   # UBXStreamError: stream ended inside a frame
E_HEADER = 101   # UBXParseError: unknown protocol header


def short_read(avail, at, n, filestyle):
    """the stream holds only `avail` (< wanted) more bytes at offset `at`"""
    if avail == 0:
        return (EOF_, at, None, None, None)
    if filestyle:
        return (REJECT, n, None, None, E_STREAM)   # the fragment is consumed and dropped
    return (EOF_, at, None, None, None)            # socket style: nothing is consumed, reading stops


def finish(proto_bit, proto, raw, end, protfilter, parsing, o1, o2, o3):
    if protfilter & proto_bit and parsing:
        status, val = ext_parse(proto, raw, o1, o2, o3)
        if status != 0:
            return (REJECT, end, None, None, status + 10 * proto_bit)
        parsed = val
    else:
        parsed = None
    if protfilter & proto_bit:
        return (ITEM, end, raw, parsed, None)
    return (SKIP, end, None, None, None)


def spec_step(data, pos, filestyle, protfilter, parsing, validate, msgmode, parsebf, labelmsm):
    n = len(data)
    if pos >= n:
        return (EOF_, pos, None, None, None)
    b1 = data[pos]
    if b1 != 0xB5 and b1 != 0x24 and b1 != 0xD3:
        return (SKIP, pos + 1, None, None, None)
    if pos + 1 >= n:
        return (EOF_, pos + 1, None, None, None)
    b2 = data[pos + 1]
    q = pos + 2
    if b1 == 0xB5 and b2 == 0x62:
        if n - q < 4:
            return short_read(n - q, q, n, filestyle)
        plen = data[q + 2] + 256 * data[q + 3]
        if n - (q + 4) < plen + 2:
            return short_read(n - (q + 4), q + 4, n, filestyle)
        end = q + 4 + plen + 2
        return finish(2, "ubx", data[pos:end], end, protfilter, parsing, msgmode, parsebf, validate)
    if b1 == 0x24 and is_nmea_hdr2(b2):
        if q >= n:
            return (EOF_, q, None, None, None)
        end = eol(data, q)
        if data[end - 1] != 0x0A:
            return (REJECT, end, None, None, E_STREAM)
        return finish(1, "nmea", data[pos:end], end, protfilter, parsing, msgmode, validate, 0)
    if b1 == 0xD3 and b2 < 4:
        if n - q < 1:
            return (EOF_, q, None, None, None)
        size = data[q] + 256 * b2
        at = q + 1
        if size > 0 and n - at < size:
            return short_read(n - at, at, n, filestyle)
        at2 = at + size
        if n - at2 < 3:
            return short_read(n - at2, at2, n, filestyle)
        end = at2 + 3
        return finish(4, "rtcm", data[pos:end], end, protfilter, parsing, labelmsm, validate, 0)
    return (REJECT, q, None, None, E_HEADER)
