"""
Layout oracle: an independent restatement of the payload-definition grammar (README "Extensibility", rules 1-4,
and the u-blox conventions: little endian, bit 0 first, two-digit repeat suffixes).  Written from that text, not
from ubxmessage.py.  It serves three purposes:

  * WF(def): the grammar rules as closed checks over the working tree's tables (C16);
  * expected(def, payload): for a symbolic payload, the attribute values the definition prescribes (C02) and the
    conformance predicate conf(P, def);
  * encode side: the payload the definition prescribes for given attribute values (C03).

Documented special cases known to the oracle as data: `_HP<x>` fields are added to attribute <x>; the ESF-MEAS
input message has one extra repeat when calibTtagValid is set.
"""
from __future__ import annotations

import re

TYPE_RE = re.compile(r"^[ACEILRUX]\d{3}$")
BITFIELD_RE = re.compile(r"^X\d{3}$")
INT_LETTERS = "EILU"


class Leaf:
    def __init__(self, name, typ, scale=None):
        self.name, self.typ, self.scale = name, typ, scale

    @property
    def size(self):
        return -1 if self.typ == "CH" else int(self.typ[1:4])


class Bitfield:
    def __init__(self, name, typ, flags):
        self.name, self.typ, self.flags = name, typ, flags  # flags: list of (name, width in bits)

    @property
    def size(self):
        return int(self.typ[1:4])


class Group:
    def __init__(self, count, entries):
        self.count, self.entries = count, entries  # count: int | "None" | attribute name


def parse_def(defn, problems=None, where=""):
    """definition dict -> list of Leaf / Bitfield / Group.  Grammar problems are appended to `problems`."""
    problems = problems if problems is not None else []
    out = []
    if not isinstance(defn, dict):
        problems.append(f"{where}: definition is not a dict")
        return out
    for name, spec in defn.items():
        if not isinstance(name, str):
            problems.append(f"{where}: attribute name {name!r} is not a string")
            continue
        if isinstance(spec, tuple):
            if len(spec) != 2 or not isinstance(spec[1], dict):
                problems.append(f"{where}{name}: group/bitfield must be a tuple (numr, dict)")
                continue
            numr, sub = spec
            if isinstance(numr, str) and BITFIELD_RE.match(numr):
                flags = []
                for fn, ft in sub.items():
                    if not (isinstance(ft, str) and TYPE_RE.match(ft)):
                        problems.append(f"{where}{name}.{fn}: bit flag type {ft!r} is not a valid attribute type")
                        continue
                    flags.append((fn, int(ft[1:4])))
                bf = Bitfield(name, numr, flags)
                if sum(w for _, w in flags) > 8 * bf.size:
                    problems.append(f"{where}{name}: bit flags need {sum(w for _, w in flags)} bits, "
                                    f"the bitfield has {8 * bf.size}")
                out.append(bf)
            else:
                if not (isinstance(numr, int) and not isinstance(numr, bool) and numr >= 0) and not isinstance(numr, str):
                    problems.append(f"{where}{name}: group size {numr!r} is neither an int nor an attribute name nor 'None'")
                    continue
                out.append(Group(numr, parse_def(sub, problems, f"{where}{name}/")))
                out[-1].name = name
        elif isinstance(spec, list):
            if len(spec) != 2 or not isinstance(spec[0], str) or not isinstance(spec[1], (int, float)) \
                    or isinstance(spec[1], bool):
                problems.append(f"{where}{name}: scaled attribute must be [type, number]")
                continue
            if not (TYPE_RE.match(spec[0]) and spec[0][0] in INT_LETTERS):
                problems.append(f"{where}{name}: scaled attribute type {spec[0]!r} is not an integer type")
                continue
            out.append(Leaf(name, spec[0], spec[1]))
        elif isinstance(spec, str):
            if spec != "CH" and not TYPE_RE.match(spec):
                problems.append(f"{where}{name}: invalid attribute type {spec!r}")
                continue
            out.append(Leaf(name, spec))
        else:
            problems.append(f"{where}{name}: invalid attribute definition {spec!r}")
    return out


def static_size(entries):
    """bytes of one repeat if every member has a fixed size, else None"""
    tot = 0
    for e in entries:
        if isinstance(e, Leaf):
            if e.typ == "CH":
                return None
            tot += e.size
        elif isinstance(e, Bitfield):
            tot += e.size
        else:
            if not isinstance(e.count, int):
                return None
            inner = static_size(e.entries)
            if inner is None:
                return None
            tot += e.count * inner
    return tot


def exposed_names(entries, pbf, depth=0):
    """attribute base names a message of this definition exposes, with group depth, in payload order"""
    out = []
    for e in entries:
        if isinstance(e, Leaf):
            out.append((e.name, depth))
        elif isinstance(e, Bitfield):
            if pbf:
                out += [(fn, depth) for fn, _ in e.flags if not fn.startswith("reserved")]
            else:
                out.append((e.name, depth))
        else:
            out += exposed_names(e.entries, pbf, depth + 1)
    return out


def wf_violations(name, defn, class_names):
    """rules of the definition grammar (DESIGN 3.3) as closed checks; returns list of (rule, detail)"""
    problems = []
    ents = parse_def(defn, problems)
    v = [("grammar", p) for p in problems]
    # (3)/(4) group sizes: an earlier top-level integer attribute or flag; at most one 'None' group, last, top level
    top_seen = {}
    for i, e in enumerate(ents):
        if isinstance(e, Group):
            if e.count == "None":
                if i != len(ents) - 1:
                    v.append(("variable-group-last", f"variable-by-size group {e.name} is not the last entry"))
                g = static_size(e.entries)
                if not g:
                    v.append(("variable-group-size", f"variable-by-size group {e.name} has no positive static size"))
            elif isinstance(e.count, str):
                if e.count not in top_seen:
                    v.append(("group-size-earlier-attribute", f"group {e.name}: size attribute {e.count!r} is not an "
                                                               f"earlier top-level attribute or flag"))
                elif top_seen[e.count] not in ("int", "flag"):
                    v.append(("group-size-integer", f"group {e.name}: size attribute {e.count!r} is not an integer"))
            if static_size(e.entries) is None:
                v.append(("group-static", f"group {e.name} has members without a fixed size"))
            for sub in _walk_groups(e.entries):
                if sub.count == "None" or isinstance(sub.count, str):
                    v.append(("nested-group-fixed", f"nested group {getattr(sub, 'name', '?')} must have a fixed count"))
        elif isinstance(e, Leaf):
            top_seen[e.name] = "int" if (e.typ[0] in INT_LETTERS and e.scale is None) else "other"
            if e.typ == "CH" and len(ents) != 1:
                v.append(("ch-sole", f"{e.name}: CH only as the sole attribute"))
        else:
            top_seen[e.name] = "bitfield"
            for fn, _ in e.flags:
                top_seen[fn] = "flag"
    # (6') keyword names, reserved fields and flags included: one keyword must not feed two payload fields
    kwn = _all_names(ents)
    dups = sorted({x for x in kwn if kwn.count(x) > 1 and x.startswith("reserved")})
    if dups:
        v.append(("keyword-names-unique", f"keyword(s) {dups} name both a bit flag and another field: a supplied value "
                                          f"is written to both"))
    # (6) unique exposed names in both bitfield views, (7) no collision with UBXMessage's own names
    for pbf in (1, 0):
        seen = {}
        for nm, depth in exposed_names(ents, pbf):
            if nm in seen:
                v.append(("names-unique", f"attribute {nm!r} defined more than once (bitfield view {pbf})"))
            seen[nm] = depth
            base = nm[3:] if nm.startswith("_HP") else nm
            if nm.startswith("_HP"):
                if base not in seen:
                    v.append(("hp-base", f"{nm}: no earlier attribute {base!r}"))
            elif nm.startswith("_"):
                v.append(("names-public", f"attribute {nm!r} starts with an underscore"))
            if base in class_names and depth == 0:
                v.append(("names-no-collision", f"attribute {nm!r} collides with UBXMessage.{base}"))
        # (8) injective naming: no base name equals another base plus an index tail
        names = list(seen)
        for a in names:
            for b in names:
                if a != b and re.fullmatch(re.escape(b) + r"(_\d\d+)+", a):
                    if seen[b] > 0:
                        v.append(("names-injective", f"{a!r} can collide with repeated attribute {b!r}"))
    return v


def _all_names(entries):
    out = []
    for e in entries:
        if isinstance(e, Leaf):
            out.append(e.name)
        elif isinstance(e, Bitfield):
            out.append(e.name)
            out += [f for f, _ in e.flags]
        else:
            out += _all_names(e.entries)
    return out


def _walk_groups(entries):
    for e in entries:
        if isinstance(e, Group):
            yield e
            yield from _walk_groups(e.entries)


# --------------------------------------------------------------------------------------------------------------
# symbolic side: expected attribute values for a symbolic payload
# --------------------------------------------------------------------------------------------------------------
class Expected:
    def __init__(self):
        self.conf = []  # z3 Bool conjuncts
        self.top = {}  # concrete attribute name -> value (final, HP merged)
        self.order = []  # exposed concrete names in payload order
        self.families = {}  # base name -> FamilySpec
        self.group_order = {}  # group name -> ordered member base names
        self.total_len = None
        self.counts = {}  # every integer attribute / bit flag by name, whatever the bitfield view (group counts)
        self.group_counts = {}  # top-level group name -> number of repeats the definition prescribes
        self.leaves = {}  # top-level field / flag name -> {"raw": undecoded value, "typ", "scale"[, "width"]}


class FamilySpec:
    def __init__(self, base, depth, fn, group):
        self.base, self.depth, self.fn, self.group = base, depth, fn, group  # fn(idx tuple of z3/int) -> value
        self.typ, self.scale, self.width = None, None, None


def expected_layout(ex, defn, payload_rope, pbf, mode_key=None):
    """expected attributes of a payload laid out according to `defn` (symbolic counts allowed)."""
    import z3
    from pvc.values import SBytes, SInt, SFloat, zint, mk_int, mk_bool, i2f, fmul, fadd, fround, fconst

    P = payload_rope
    seg = P.segs[0] if len(P.segs) == 1 else None
    single = seg is not None and hasattr(seg, "base")
    nP = zint(P.length())
    exp = Expected()
    ents = parse_def(defn)

    def view(off, size):
        if single:
            return SBytes.view(seg.base, mk_off(seg.start, off), size)
        return P.slice(off, mk_off(off, size))  # constructed payloads: a concatenation of encoded fields

    def mk_off(a, b):
        from pvc.values import zadd
        return zadd(a, b)

    def decode(leaf_typ, scale, off, raw_only=False):
        T = leaf_typ
        if T == "CH":
            return None  # text: not compared
        n = int(T[1:4])
        b = view(off, n)
        L = T[0]
        if L in INT_LETTERS:
            raw = ex.bm.int_from_bytes(b, "little", signed=(L == "I"))
            if scale is None or scale == 1 or raw_only:
                return raw
            if isinstance(scale, int):  # integer scale factor: exact integer product
                return mk_int(zint(raw) * scale)
            return SFloat(fround(fmul(i2f(zint(raw)), fconst(float(scale))), z3.IntVal(12)))
        if L in ("X", "C"):
            return b
        if L == "R":
            return ex.bm.b_struct_unpack("<f" if n == 4 else "<d", b)[0]
        if L == "A":
            return ex.st.alloc("list", None, items=[mk_int(b.at(k)) for k in range(n)])
        return None

    def bits(off, size, bo, w):
        u = ex.bm.int_from_bytes(view(off, size), "little", signed=False)
        return mk_int((zint(u) / (1 << bo)) % (1 << w))

    off = 0  # int or z3 term
    for e in ents:
        if isinstance(e, Leaf):
            if e.typ == "CH":
                # variable-length text: the rest of the payload, decoded with the library's text codec
                exp.order.append(e.name)
                from pvc.values import SStr, TextOf
                rest = payload_rope if (isinstance(off, int) and off == 0) else ex.bm.subscript(payload_rope, slice(mk_int(zint(off)), None, None))
                exp.top[e.name] = SStr((TextOf(rest, "utf-8", "backslashreplace"),))
                exp.leaves[e.name] = {"raw": rest, "typ": "CH", "scale": None, "bytes": rest}
                off = nP
                continue
            val = decode(e.typ, e.scale, off)
            exp.leaves[e.name] = {"raw": decode(e.typ, e.scale, off, raw_only=True), "typ": e.typ, "scale": e.scale,
                                  "bytes": view(off, int(e.typ[1:4]))}
            if e.name.startswith("_HP") and e.name[3:] in exp.top:
                b0 = exp.top[e.name[3:]]
                from pvc.values import SFloat as SF

                def tof(v):
                    if isinstance(v, SF):
                        return v.e
                    return i2f(zint(v))

                exp.top[e.name[3:]] = SF(fround(fadd(tof(b0), tof(val)), z3.IntVal(12)))
            else:
                exp.top[e.name] = val
                exp.order.append(e.name)
                if e.typ[0] in INT_LETTERS and e.scale is None:
                    exp.counts[e.name] = val
            off = mk_off(off, e.size)
        elif isinstance(e, Bitfield):
            bo = 0
            for fn, w in e.flags:
                exp.counts[fn] = bits(off, e.size, bo, w)
                exp.leaves[fn] = {"raw": exp.counts[fn], "typ": "flag", "scale": None, "width": w}
                bo += w
            exp.leaves[e.name] = {"raw": view(off, e.size), "typ": e.typ, "scale": None}
            if pbf:
                bo = 0
                for fn, w in e.flags:
                    if not fn.startswith("reserved"):
                        exp.top[fn] = bits(off, e.size, bo, w)
                        exp.order.append(fn)
                    bo += w
            else:
                exp.top[e.name] = view(off, e.size)
                exp.order.append(e.name)
            off = mk_off(off, e.size)
        else:
            G = static_size(e.entries)
            if G is None:
                from pvc.values import Unsupported
                raise Unsupported(f"group {e.name} without static size")
            if isinstance(e.count, int):
                N = e.count
            elif e.count == "None":
                rest = nP - zint(off)
                N = mk_int(rest / G) if G else 0
                exp.conf.append(mk_bool(z3.And(rest >= 0, rest % G == 0)) if G else False)
            else:
                cv = exp.counts.get(e.count)
                if cv is None:
                    from pvc.values import Unsupported
                    raise Unsupported(f"group {e.name}: count attribute {e.count} unavailable in this view")
                N = cv
                if mode_key == ("SET", b"\x10\x02") and "calibTtagValid" in exp.counts:
                    N = mk_int(zint(N) + z3.If(zint(exp.counts["calibTtagValid"]) != 0, 1, 0))
            exp.group_counts[e.name] = N
            _family_specs(ex, exp, e, off, G, N, pbf, view, decode, bits, depth_idx=())
            off = mk_off(off, zint(N) * G if not (isinstance(N, int)) else N * G)
    exp.total_len = off
    exp.conf.append(mk_bool(nP == zint(off)))
    return exp


def _family_specs(ex, exp, grp, goff, G, N, pbf, view, decode, bits, depth_idx):
    """register FamilySpec for every member of group `grp` (nested fixed groups included)"""
    from pvc.values import zint, zadd
    order = []

    def register(entries, base_off_fn, depth):
        fo = 0
        for m in entries:
            if isinstance(m, Leaf):
                def fn(idx, fo=fo, m=m, raw_only=False):
                    return decode(m.typ, m.scale, base_off_fn(idx, fo), raw_only)
                exp.families[m.name] = FamilySpec(m.name, depth, fn, grp.name)
                exp.families[m.name].typ, exp.families[m.name].scale = m.typ, m.scale
                order.append(m.name)
                fo += m.size
            elif isinstance(m, Bitfield):
                if pbf:
                    bo = 0
                    for fnm, w in m.flags:
                        if not fnm.startswith("reserved"):
                            def fn(idx, fo=fo, bo=bo, w=w, m=m):
                                return bits(base_off_fn(idx, fo), m.size, bo, w)
                            exp.families[fnm] = FamilySpec(fnm, depth, fn, grp.name)
                            order.append(fnm)
                        bo += w
                else:
                    def fn(idx, fo=fo, m=m, raw_only=False):
                        return view(base_off_fn(idx, fo), m.size)
                    exp.families[m.name] = FamilySpec(m.name, depth, fn, grp.name)
                    exp.families[m.name].typ, exp.families[m.name].scale = m.typ, None
                    order.append(m.name)
                fo += m.size
            else:
                g2 = static_size(m.entries)

                def inner(idx, fo2, outer_fo=fo, g2=g2, base_off_fn=base_off_fn):
                    # idx = (..., j_outer, j_inner): inner repeat j_inner of the nested fixed group
                    return zadd(base_off_fn(idx[:-1], outer_fo), zadd((zint(idx[-1]) - 1) * g2, fo2))

                register(m.entries, inner, depth + 1)
                fo += m.count * g2

    def top_off(idx, fo):
        # idx = (j,): repeat j (1-based) of the group starting at goff
        return zadd(zint(goff) if not isinstance(goff, int) else goff, zadd((zint(idx[-1]) - 1) * G, fo))

    register(grp.entries, top_off, 1)
    exp.group_order[grp.name] = order
    exp.families["__count__" + grp.name] = N


# --------------------------------------------------------------------------------------------------------------
# native (concrete) side of the oracle: used to replay counter-models and to cross-check the oracle itself
# --------------------------------------------------------------------------------------------------------------
def native_expected(defn, payload: bytes, pbf, mode_key=None, raw=False):
    """attribute dict {name: value} the definition prescribes for a concrete payload (None if it does not conform);
    raw=True: scaled integer fields are reported unscaled and high-precision parts under their own names"""
    import struct
    ents = parse_def(defn)
    out = {}
    counts = {}

    def dec(typ, scale, b):
        L = typ[0]
        if typ == "CH":
            return b.decode("utf-8", "backslashreplace")
        if L in INT_LETTERS:
            v = int.from_bytes(b, "little", signed=(L == "I"))
            if scale is None or scale == 1 or raw:
                return v
            return round(v * scale, 12)
        if L in ("X", "C"):
            return b
        if L == "R":
            return struct.unpack("<f" if len(b) == 4 else "<d", b)[0]
        if L == "A":
            return list(b)
        raise ValueError(typ)

    def walk(entries, off, suffix):
        for e in entries:
            if isinstance(e, Leaf):
                n = len(payload) - off if e.typ == "CH" else e.size
                b = payload[off:off + n]
                if len(b) != n:
                    raise IndexError("short")
                v = dec(e.typ, e.scale, b)
                nm = e.name + suffix
                if e.name.startswith("_HP") and raw:
                    out[nm] = v
                elif e.name.startswith("_HP"):
                    out[nm[3:]] = round(out[nm[3:]] + v, 12)
                else:
                    out[nm] = v
                if not suffix and e.typ[0] in INT_LETTERS and e.scale is None:
                    counts[e.name] = v
                off += n
            elif isinstance(e, Bitfield):
                b = payload[off:off + e.size]
                if len(b) != e.size:
                    raise IndexError("short")
                u = int.from_bytes(b, "little")
                bo = 0
                for fn, w in e.flags:
                    val = (u >> bo) & ((1 << w) - 1)
                    if not suffix:
                        counts[fn] = val
                    if pbf and not fn.startswith("reserved"):
                        out[fn + suffix] = val
                    bo += w
                if not pbf:
                    out[e.name + suffix] = b
                off += e.size
            else:
                G = static_size(e.entries)
                if isinstance(e.count, int):
                    N = e.count
                elif e.count == "None":
                    rest = len(payload) - off
                    if rest < 0 or (G and rest % G):
                        raise IndexError("nonconforming")
                    N = rest // G if G else 0
                else:
                    N = counts[e.count]
                    if mode_key == ("SET", b"\x10\x02") and counts.get("calibTtagValid"):
                        N += 1
                for j in range(1, N + 1):
                    off = walk(e.entries, off, suffix + f"_{j:02d}")
        return off

    try:
        end = walk(ents, 0, "")
    except (IndexError, KeyError, struct.error):
        return None
    if end != len(payload):
        return None
    return out


# --------------------------------------------------------------------------------------------------------------
# variant selection rules, restated as data from the selectors' docstrings (ubxvariants.py) and the interface
# description: which payload definition applies to a class/ID x mode, given the payload (parse route) or the
# discriminating keywords (keyword route).  Conditions are small predicate descriptions interpreted by the checker.
# --------------------------------------------------------------------------------------------------------------
# condition language:  ("len", n) payload length == n | ("byte", i, v) payload[i] == v (and the byte exists)
#                      ("kw", name) keyword present    | ("kwval", name, v) keyword present with value v
#                      ("not", c) | ("and", c1, c2) | ("true",)
VARIANT_RULES = {
    ("POLL", b"\x06\x31"): {"payload": [(("len", 1), "CFG-TP5-TPX"), (("true",), "CFG-TP5")],
                            "keywords": [(("kw", "tpIdx"), "CFG-TP5-TPX"), (("true",), "CFG-TP5")]},
    ("SET", b"\x02\x41"): {"payload": [(("len", 16), "RXM-PMREQ"), (("true",), "RXM-PMREQ-S")],
                           "keywords": [(("kw", "version"), "RXM-PMREQ"), (("true",), None)]},
    ("SET", b"\x02\x72"): {"payload": [(("byte", 0, 0), "RXM-PMP-V0"), (("true",), "RXM-PMP-V1")],
                           "keywords": [(("kwval", "version", 0), "RXM-PMP-V0"), (("kw", "version"), "RXM-PMP-V1"), (("true",), None)]},
    ("GET", b"\x02\x72"): {"payload": [(("byte", 0, 0), "RXM-PMP-V0"), (("true",), "RXM-PMP-V1")],
                           "keywords": [(("kwval", "version", 0), "RXM-PMP-V0"), (("kw", "version"), "RXM-PMP-V1"), (("true",), None)],
                           "table": "SET"},
    ("GET", b"\x02\x59"): {"payload": [(("byte", 1, 1), "RXM-RLM-S"), (("true",), "RXM-RLM-L")],
                           "keywords": [(("kwval", "type", 1), "RXM-RLM-S"), (("kw", "type"), "RXM-RLM-L"), (("true",), None)]},
    ("GET", b"\x06\x17"): {"payload": [(("len", 4), "CFG-NMEAvX"), (("len", 12), "CFG-NMEAv0"), (("true",), "CFG-NMEA")],
                           "keywords": [(("true",), None)]},
    ("GET", b"\x01\x60"): {"payload": [(("len", 20), "NAV-AOPSTATUS-L"), (("true",), "NAV-AOPSTATUS")],
                           "keywords": [(("true",), None)]},
    ("GET", b"\x01\x3c"): {"payload": [(("byte", 0, 0), "NAV-RELPOSNED-V0"), (("true",), "NAV-RELPOSNED")],
                           "keywords": [(("kwval", "version", 0), "NAV-RELPOSNED-V0"), (("kw", "version"), "NAV-RELPOSNED"), (("true",), None)]},
    ("SET", b"\x0d\x15"): {"payload": [(("len", 1), "TIM-VCOCAL-V0"), (("true",), "TIM-VCOCAL")],
                           "keywords": [(("kwval", "type", 0), "TIM-VCOCAL-V0"), (("kw", "type"), "TIM-VCOCAL"), (("true",), None)]},
    ("SET", b"\x06\x06"): {"payload": [(("len", 2), "CFG-DAT-NUM"), (("true",), "CFG-DAT")],
                           "keywords": [(("kw", "datumNum"), "CFG-DAT-NUM"), (("true",), "CFG-DAT")]},
    ("GET", b"\x27\x09"): {"payload": [(("byte", 0, 1), "SEC-SIG-V1"), (("true",), "SEC-SIG-V2")],
                           "keywords": [(("kwval", "version", 1), "SEC-SIG-V1"), (("kw", "version"), "SEC-SIG-V2"), (("true",), None)]},
    ("GET", b"\x0b\x32"): {"payload": [(("byte", 1, 0xFF), "AID-ALPSRV-SEND"), (("true",), "AID-ALPSRV-REQ")],
                           "keywords": [(("kwval", "type", 0xFF), "AID-ALPSRV-SEND"), (("kw", "type"), "AID-ALPSRV-REQ"), (("true",), None)]},
}


def expected_definition_rules(mode_name, key, msgids):
    """ordered [(condition, definition name | None)] for one class/ID x mode on the given route; None = not decidable
    from keywords (the selector must refuse).  MGA: by the first payload byte / the `type` keyword through the message-ID
    table.  Everything else: the single definition named by the message-ID table."""
    r = VARIANT_RULES.get((mode_name, key))
    if r is not None:
        return r
    three = sorted(k for k in msgids if len(k) == 3 and k[0:2] == key)
    if three and mode_name in ("SET", "GET"):
        pay = [(("byte", 0, k[2]), msgids[k]) for k in three] + [(("true",), None)]
        kws = [(("kwval", "type", k[2]), msgids[k]) for k in three] + [(("true",), None)]
        return {"payload": pay, "keywords": kws}
    return None


def native_expected_definition(mode_name, key, msgids, tables_by_mode, payload=None, kwargs=None):
    """name of the definition the selection rules prescribe for a concrete payload / keyword dict (None: refuse)"""
    rules = expected_definition_rules(mode_name, key, msgids)
    if rules is None:
        return msgids.get(key)

    def cond(c):
        k = c[0]
        if k == "true":
            return True
        if k == "len":
            return len(payload) == c[1]
        if k == "byte":
            return len(payload) > c[1] and payload[c[1]] == c[2]
        if k == "kw":
            return c[1] in kwargs
        if k == "kwval":
            return c[1] in kwargs and kwargs[c[1]] == c[2]
        raise ValueError(c)

    for c, name in rules["payload" if payload is not None else "keywords"]:
        if cond(c):
            return name
    return None
